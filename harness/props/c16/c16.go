// Package c16 monitors stcp sessions: whatever ends a session, the exit callback runs
// exactly once, the connection is closed, both session goroutines stop and the
// manager's connection count returns; bytes accepted by Send before a local Close
// reach a reading peer completely and in order; the server never exceeds its maximum.
package c16

import (
	"math"
	"bytes"
	"errors"
	"fmt"
	"io"
	"net"
	"strings"
	"sync"
	"sync/atomic"
	"time"

	"verifh/engine"

	"github.com/pinealctx/neptune/stcp"
	"github.com/pinealctx/neptune/ulog"
	"go.uber.org/zap/zapcore"
)

var Q *engine.Quiescer
var quietLogger *ulog.Logger

// Prop is the C16 check.
var Prop = &engine.Prop{
	ID:    "C16",
	Level: "exploration",
	Rule: "cases are seed-generated fault sequences over 1-8 simultaneous sessions running on an in-memory net.Conn with virtual deadlines: queued sends, local Close, peer close, read timeout, write timeout, write error, handler error, handler panic, singly, in sequence and as simultaneous bursts, reading and non-reading peers; " +
		"a quiescent cut after every step is compared with a small session model (ended or not, exit callback count, connection closed, goroutines alive, connection count, bytes the peer received); a loop-back server kind checks the connection bound with real sockets; " +
		"non-trivial = a fault fired while sends were queued or two terminating events hit one session; distinct = distinct program texts with outcomes",
	Assumptions: []string{
		"a quiescent goroutine snapshot of a timer-free execution is a fixed point (the fake connection only records deadlines; timeouts are explicit steps)",
		"a peer that never reads makes Write block until a (virtual) write timeout, as the 8 s write deadline does in production",
		"UpdateHandler is only called on sessions that have ended (where it must not lead to another exit callback); UpdateHandler on a running session and panics inside OnExit are not judged",
		"the loop-back server kind runs under real time; its watchdog expiry is inconclusive",
	},
	ShardsQuick: 8, ShardsThorough: 16,
	Setup: func(c *engine.Ctx) {
		Q = engine.NewQuiescer()
		quietLogger = ulog.NewSimpleLogger("error")
		quietLogger.SetLevel(zapcore.FatalLevel)
		ulog.SetDefaultLogger(quietLogger)
		Q = engine.NewQuiescer()
	},
	Kinds: []engine.Kind{
		{Name: "faults", Quick: 8000, Thorough: 600000, Fn: faultCase},
		{Name: "server", Quick: 16, Thorough: 640, Fn: serverCase},
		{Name: "tcp-flush", Quick: 24, Thorough: 960, Fn: tcpFlushCase},
		{Name: "server-zero", Quick: 8, Thorough: 160, Fn: serverZeroCase},
		{Name: "mgr-independence", Quick: 200, Thorough: 8000, Fn: mgrIndependenceCase},
	},
	Floors: map[string]int64{
		"sessions":                       2000,
		"event_close":                    200,
		"event_peer_close":               200,
		"event_read_timeout":             200,
		"event_write_fault":              200,
		"event_handler_error":            200,
		"event_handler_panic":            200,
		"second_event_on_ended_session":  200,
		"burst_steps":                    200,
		"flush_checked_local_close":      200,
		"blocked_write_sessions":         100,
		"frames_delivered":               2000,
		"server_rounds":                  4,
		"tcp_flush_rounds":               4,
		"server_surplus_connections_cut": 4,
	},
}

// ---------------------------------------------------------------- fake connection

type timeoutErr struct{}

func (timeoutErr) Error() string   { return "fake i/o timeout" }
func (timeoutErr) Timeout() bool   { return true }
func (timeoutErr) Temporary() bool { return true }

var errConnClosed = errors.New("fake: use of closed connection")
var errWriteFault = errors.New("fake: write failed")

type fakeAddr string

func (a fakeAddr) Network() string { return "fake" }
func (a fakeAddr) String() string  { return string(a) }

// vclock is the virtual clock of one case: virtual now = real now + offset. The session
// code computes its deadlines from time.Now(); with read/write timeouts of 1000 h no real
// delay can make them expire, only an explicit advance step.
type vclock struct{ offset atomic.Int64 }

func (v *vclock) now() time.Time { return time.Now().Add(time.Duration(v.offset.Load())) }

type fakeConn struct {
	mu   sync.Mutex
	cond *sync.Cond
	addr fakeAddr
	clk  *vclock
	rdl  time.Time
	wdl  time.Time
	// how far ahead the last read / write deadline was when it was armed, and how often one was
	rdlIn, wdlIn   time.Duration
	rdlSet, wdlSet int

	inbuf        []byte
	peerClosed   bool
	readTimeout  bool
	writeTimeout bool // the write deadline expired (until a new deadline is set)
	closed       bool
	closeErr     bool // Close() closes the connection but reports an error (as a TLS close_notify can)
	partialWT    bool // a write that runs into its deadline reports partial progress (n > 0 with the timeout error)
	noReadDl     bool // SetReadDeadline is refused (a connection that is already dead when the session gets it)
	closeCount   int
	peerReads    bool
	received     []byte
	writeErr     error
	blocked      int
	writesTried  int
}

func newFakeConn(id int, peerReads bool, clk *vclock) *fakeConn {
	c := &fakeConn{addr: fakeAddr(fmt.Sprintf("fake-peer-%d", id)), peerReads: peerReads, clk: clk}
	c.cond = sync.NewCond(&c.mu)
	return c
}

func (c *fakeConn) Read(p []byte) (int, error) {
	c.mu.Lock()
	defer c.mu.Unlock()
	for {
		if c.closed {
			return 0, errConnClosed
		}
		if len(c.inbuf) > 0 {
			n := copy(p, c.inbuf)
			c.inbuf = c.inbuf[n:]
			return n, nil
		}
		if c.peerClosed {
			return 0, io.EOF
		}
		if c.readTimeout {
			return 0, timeoutErr{}
		}
		if !c.rdl.IsZero() && !c.clk.now().Before(c.rdl) {
			return 0, timeoutErr{}
		}
		c.cond.Wait()
	}
}

func (c *fakeConn) Write(p []byte) (int, error) {
	c.mu.Lock()
	defer c.mu.Unlock()
	c.writesTried++
	for {
		if c.closed {
			return 0, errConnClosed
		}
		if c.writeErr != nil {
			return 0, c.writeErr
		}
		if c.writeTimeout {
			if c.partialWT && len(p) > 1 {
				// the deadline expired after part of the buffer had gone out
				n := 1 + len(p)/3
				c.received = append(c.received, p[:n]...)
				return n, timeoutErr{}
			}
			return 0, timeoutErr{}
		}
		if !c.wdl.IsZero() && !c.clk.now().Before(c.wdl) {
			// as on a real connection: once the armed deadline has passed nothing is written
			return 0, timeoutErr{}
		}
		if c.peerReads {
			c.received = append(c.received, p...)
			return len(p), nil
		}
		c.blocked++
		c.cond.Wait()
		c.blocked--
	}
}

func (c *fakeConn) Close() error {
	c.mu.Lock()
	defer c.mu.Unlock()
	c.closeCount++
	if c.closed {
		return errConnClosed
	}
	c.closed = true
	c.cond.Broadcast()
	if c.closeErr {
		return errors.New("fake: close_notify could not be written")
	}
	return nil
}

func (c *fakeConn) LocalAddr() net.Addr  { return fakeAddr("fake-local") }
func (c *fakeConn) RemoteAddr() net.Addr { return c.addr }
func (c *fakeConn) SetDeadline(t time.Time) error {
	c.mu.Lock()
	c.rdl, c.wdl = t, t
	c.cond.Broadcast()
	c.mu.Unlock()
	return nil
}
func (c *fakeConn) SetReadDeadline(t time.Time) error {
	c.mu.Lock()
	if c.noReadDl {
		c.mu.Unlock()
		return errDeadline
	}
	c.readTimeout = false // a new deadline is armed: an earlier expiry no longer applies
	c.rdl = t
	c.rdlIn, c.rdlSet = time.Until(t), c.rdlSet+1
	c.cond.Broadcast()
	c.mu.Unlock()
	return nil
}
func (c *fakeConn) SetWriteDeadline(t time.Time) error {
	c.mu.Lock()
	c.writeTimeout = false
	c.wdl = t
	c.wdlIn, c.wdlSet = time.Until(t), c.wdlSet+1
	c.cond.Broadcast()
	c.mu.Unlock()
	return nil
}
func (c *fakeConn) wake() { c.mu.Lock(); c.cond.Broadcast(); c.mu.Unlock() }
func (c *fakeConn) startReading() {
	c.mu.Lock()
	c.peerReads = true
	c.cond.Broadcast()
	c.mu.Unlock()
}

func (c *fakeConn) deliver(b ...byte) {
	c.mu.Lock()
	c.inbuf = append(c.inbuf, b...)
	c.cond.Broadcast()
	c.mu.Unlock()
}
func (c *fakeConn) peerClose() { c.mu.Lock(); c.peerClosed = true; c.cond.Broadcast(); c.mu.Unlock() }
func (c *fakeConn) fireReadTimeout() {
	c.mu.Lock()
	c.readTimeout = true
	c.cond.Broadcast()
	c.mu.Unlock()
}
func (c *fakeConn) fireWriteTimeout() {
	c.mu.Lock()
	c.writeTimeout = true
	c.cond.Broadcast()
	c.mu.Unlock()
}
func (c *fakeConn) failWrites(err error) {
	c.mu.Lock()
	c.writeErr = err
	c.cond.Broadcast()
	c.mu.Unlock()
}
func (c *fakeConn) snapshot() (received []byte, closeCount int, blocked int) {
	c.mu.Lock()
	defer c.mu.Unlock()
	return append([]byte(nil), c.received...), c.closeCount, c.blocked
}

// ---------------------------------------------------------------- handler

// fakeConnCW is a fakeConn that also offers CloseWrite (as unix and TLS connections do): a
// half-close is not a close.
type fakeConnCW struct {
	*fakeConn
	closeWrites atomic.Int32
}

func (c *fakeConnCW) CloseWrite() error { c.closeWrites.Add(1); return nil }

var errHandler = errors.New("handler: bad frame")
var errDeadline = errors.New("fake conn: use of closed network connection (set deadline)")

type handler struct {
	mu       sync.Mutex
	exits    map[*stcp.Session]int
	byAddr   map[string]*stcp.Session
	mgr      *stcp.SessionMgr
	maxCount atomic.Int32
}

func newHandler() *handler {
	return &handler{exits: map[*stcp.Session]int{}, byAddr: map[string]*stcp.Session{}}
}

func (h *handler) Read(s *stcp.Session) error {
	h.mu.Lock()
	h.byAddr[s.RemoteAddr()] = s
	m := h.mgr
	h.mu.Unlock()
	if m != nil {
		n := m.ConnCount()
		for {
			o := h.maxCount.Load()
			if n <= o || h.maxCount.CompareAndSwap(o, n) {
				break
			}
		}
	}
	var b [1]byte
	if err := s.Read(b[:]); err != nil {
		return err
	}
	switch b[0] {
	case 2:
		return errHandler
	case 3:
		panic("handler panic on command byte 3")
	}
	return nil
}

func (h *handler) OnExit(s *stcp.Session) {
	h.mu.Lock()
	h.exits[s]++
	h.mu.Unlock()
}

func (h *handler) exitCount(s *stcp.Session) int { h.mu.Lock(); defer h.mu.Unlock(); return h.exits[s] }
func (h *handler) session(addr string) *stcp.Session {
	h.mu.Lock()
	defer h.mu.Unlock()
	return h.byAddr[addr]
}

// ---------------------------------------------------------------- model

type sess struct {
	id        int
	conn      *fakeConn
	s         *stcp.Session
	peerReads bool
	// model
	ended       bool
	closedLocal bool
	writeBroken bool
	pending     int // accepted frames not yet written (non-reading peer)
	accepted    [][]byte
	events      int
	uncertain   bool // a burst left the outcome open: adopt the observation
	hadWT       bool // a write deadline expired at some point: accepted bytes need not all arrive
}

const (
	evSend = iota
	evClose
	evPeerClose
	evReadTimeout
	evWriteTimeout
	evFailWrite
	evHandlerErr
	evHandlerPanic
	evDeliverOK
	evAdvanceSmall   // virtual time + 1 h: far below the 1000 h read/write timeouts
	evPeerStartsRead // a peer that did not read starts reading
	nEvents
)

var evNames = []string{"send", "close", "peer-close", "read-timeout", "write-timeout", "write-error", "handler-error", "handler-panic", "deliver-ok", "advance-1h", "peer-starts-reading"}

func alwaysTerminates(ev int) bool {
	return ev == evPeerClose || ev == evReadTimeout || ev == evHandlerErr || ev == evHandlerPanic
}

func faultCase(k *engine.Case) {
	r := k.R
	h := newHandler()
	// timeouts: 1000 h, or "never" written as the largest duration (both far beyond anything the
	// virtual clock is advanced by)
	rto, wto := 1000*time.Hour, 1000*time.Hour
	if r.Intn(3) == 0 {
		rto, wto = time.Duration(math.MaxInt64), time.Duration(math.MaxInt64)
		k.Count("managers_with_never_timeouts", 1)
	}
	mgr := stcp.NewSessionMgr(h, stcp.WithReadTimeout(rto), stcp.WithWriteTimeout(wto))
	mgr.SetLogger(quietLogger)
	if r.Intn(2) == 0 {
		// another manager with options of its own is built in the same process (never used):
		// managers are independent, the sessions of this case keep this case's timeouts - the
		// one-hour advances of the virtual clock below stay far below them
		other := stcp.NewSessionMgr(newHandler(), stcp.WithReadTimeout(30*time.Minute), stcp.WithWriteTimeout(20*time.Minute))
		other.SetLogger(quietLogger)
		if r.Intn(2) == 0 {
			stcp.NewEchoMgr(&srvHandler{}, stcp.WithReadTimeout(10*time.Minute), stcp.WithWriteTimeout(10*time.Minute))
		}
		k.Count("cases_with_another_manager_built", 1)
	}
	clk := &vclock{}
	h.mu.Lock()
	h.mgr = mgr
	h.mu.Unlock()
	base := mgr.ConnCount()
	d := engine.NewDriver(Q, k)
	ns := 1 + r.Intn(3)
	if r.Intn(4) == 0 {
		ns = 4 + r.Intn(5)
	}
	var ss []*sess
	frameNo := 0
	bigFrames := r.Intn(3) == 0 // frames of 50-450 bytes: backlogs of several KiB
	k.Logf("sessions=%d", ns)
	for i := 0; i < ns; i++ {
		x := &sess{id: i, peerReads: r.Intn(4) != 0}
		x.conn = newFakeConn(i, x.peerReads, clk)
		if r.Intn(3) == 0 {
			x.conn.partialWT = true
		}
		if r.Intn(5) == 0 {
			x.conn.closeErr = true
			k.Count("sessions_whose_conn_close_reports_error", 1)
		}
		if r.Intn(10) == 0 {
			// dead on arrival: the first read deadline cannot be armed. The session has to end
			// like any other: one exit callback, connection closed, count back
			x.conn.noReadDl = true
			x.ended = true
			k.Count("sessions_dead_on_arrival", 1)
		}
		var nc net.Conn = x.conn
		if r.Intn(4) == 0 {
			nc = &fakeConnCW{fakeConn: x.conn}
			k.Count("sessions_on_conn_with_closewrite", 1)
		}
		if r.Intn(2) == 0 && !x.conn.noReadDl {
			mgr.Do(nc)
		} else {
			x.s = stcp.NewSession(mgr, nc)
			x.s.Start()
			x.s.Start() // Start is idempotent
		}
		ss = append(ss, x)
		k.Count("sessions", 1)
	}
	if !d.Quiesce() {
		return
	}
	for _, x := range ss {
		if x.s == nil {
			x.s = h.session(string(x.conn.addr))
		}
		if x.s == nil {
			k.Fail("session-not-started", "SessionMgr.Do did not start a session that reads from its connection")
			return
		}
		k.Logf("s%d: peer-reads=%v", x.id, x.peerReads)
	}

	loops := func() int {
		return Q.CountStacks("stcp.(*Session).loopSend") + Q.CountStacks("stcp.(*Session).loopReceive")
	}

	describe := func() string {
		var p []string
		for _, x := range ss {
			rec, cc, bl := x.conn.snapshot()
			p = append(p, fmt.Sprintf("s%d{exits=%d closes=%d blockedWrites=%d received=%dB accepted=%d model-ended=%v}", x.id, h.exitCount(x.s), cc, bl, len(rec), len(x.accepted), x.ended))
		}
		return strings.Join(p, " ") + fmt.Sprintf(" conncount=%d loops=%d", mgr.ConnCount(), loops())
	}

	cleanup := func() {
		for _, x := range ss {
			x.s.Close()
			x.conn.failWrites(errWriteFault)
			x.conn.peerClose()
		}
		Q.Wait()
	}

	check := func(what string) bool {
		live := 0
		for _, x := range ss {
			ex := h.exitCount(x.s)
			rec, cc, _ := x.conn.snapshot()
			if ex > 1 {
				k.Fail("exit-callback-twice", "after %s: OnExit ran %d times for session s%d: %s", what, ex, x.id, describe())
				return false
			}
			if x.uncertain {
				// outcome of a burst that may or may not end the session: adopt it
				x.ended = ex == 1
				x.uncertain = false
			}
			if x.ended {
				if ex != 1 {
					k.Fail("session-not-ended", "after %s: session s%d must have ended but OnExit ran %d times: %s; %v", what, x.id, ex, describe(), Q.Describe())
					return false
				}
				if cc < 1 {
					k.Fail("connection-not-closed", "after %s: session s%d ended but its connection was never closed: %s", what, x.id, describe())
					return false
				}
			} else {
				live++
				if ex != 0 {
					k.Fail("spurious-exit", "after %s: session s%d ended (OnExit ran) although nothing ended it: %s", what, x.id, describe())
					return false
				}
			}
			// delivery: the peer received whole accepted frames, in order, nothing else
			want := bytes.Join(x.accepted, nil)
			if !bytes.HasPrefix(want, rec) {
				k.Fail("delivery-corrupt", "after %s: peer of s%d received %q which is not a prefix of the accepted frames %q", what, x.id, rec, want)
				return false
			}
		}
		if n := loops(); n != 2*live {
			cls := "goroutine-leak"
			if n < 2*live {
				cls = "goroutine-missing"
			}
			k.Fail(cls, "after %s: %d session loop goroutines exist, %d sessions are alive (expected %d): %s; %v", what, n, live, 2*live, describe(), Q.Describe())
			return false
		}
		if c := mgr.ConnCount(); int(c-base) != live {
			k.Fail("conn-count", "after %s: ConnCount()=%d (base %d) but %d sessions are alive: %s", what, c, base, live, describe())
			return false
		}
		return true
	}

	// apply one event to the real session and to the model; returns the action for bursts
	type act struct {
		x  *sess
		ev int
		n  int
		do func()
	}
	plan := func(x *sess, ev int) act {
		a := act{x: x, ev: ev}
		switch ev {
		case evSend:
			a.n = 1 + r.Intn(4)
			if r.Intn(10) == 0 {
				a.n = 20 + r.Intn(30)
			}
			frames := make([][]byte, a.n)
			for i := range frames {
				frameNo++
				pad := 0
				if bigFrames {
					pad = 40 + r.Intn(400)
					if r.Intn(6) == 0 {
						pad = 1000 + r.Intn(3000) // frames of several KiB
					}
				}
				frames[i] = []byte(fmt.Sprintf("<s%d#%d%s>", x.id, frameNo, strings.Repeat(".", pad)))
			}
			a.do = func() {
				for _, f := range frames {
					err := x.s.Send(f)
					x.conn.mu.Lock() // guards x.accepted against the burst goroutines
					if err == nil {
						x.accepted = append(x.accepted, f)
					}
					x.conn.mu.Unlock()
				}
			}
		case evClose:
			a.do = func() { x.s.Close() }
		case evPeerClose:
			a.do = func() { x.conn.peerClose() }
		case evReadTimeout:
			a.do = func() { x.conn.fireReadTimeout() }
		case evWriteTimeout:
			a.do = func() { x.conn.fireWriteTimeout() }
		case evFailWrite:
			a.do = func() { x.conn.failWrites(errWriteFault) }
		case evHandlerErr:
			a.do = func() { x.conn.deliver(2) }
		case evHandlerPanic:
			a.do = func() { x.conn.deliver(3) }
		case evDeliverOK:
			a.do = func() { x.conn.deliver(1, 1) }
		case evAdvanceSmall:
			a.do = func() {
				clk.offset.Add(int64(time.Hour))
				for _, y := range ss {
					y.conn.wake()
				}
			}
		case evPeerStartsRead:
			a.do = func() { x.conn.startReading() }
		}
		return a
	}
	// sequential model update (exact); accBefore = frames accepted before the action
	model := func(a act, accBefore int) {
		x := a.x
		if x.ended {
			if a.ev != evSend && a.ev != evDeliverOK && a.ev != evAdvanceSmall && a.ev != evPeerStartsRead {
				k.Count("second_event_on_ended_session", 1)
			}
			return
		}
		got := len(x.accepted) - accBefore
		switch a.ev {
		case evSend:
			if x.closedLocal {
				break // refused
			}
			if x.writeBroken {
				if got > 0 {
					x.ended = true // the write fails
				}
			} else if !x.peerReads {
				x.pending += got
				if got > 0 {
					k.Count("blocked_write_sessions", 1)
				}
			}
		case evClose:
			x.closedLocal = true
			if x.pending == 0 {
				x.ended = true
			}
		case evWriteTimeout:
			// the deadline of the write in progress expires; the next write arms a new deadline
			x.hadWT = true
			if x.pending > 0 {
				x.ended = true
			}
		case evFailWrite:
			x.writeBroken = true
			if x.pending > 0 {
				x.ended = true
			}
		case evPeerClose, evReadTimeout, evHandlerErr, evHandlerPanic:
			x.ended = true
		case evPeerStartsRead:
			if !x.peerReads {
				x.peerReads = true
				if !x.writeBroken {
					x.pending = 0 // the blocked write and the queued frames flow to the peer
					if x.closedLocal {
						x.ended = true // the pending local Close completes after the flush
					}
				}
			}
		}
	}
	countEv := func(ev int) {
		switch ev {
		case evClose:
			k.Count("event_close", 1)
		case evPeerClose:
			k.Count("event_peer_close", 1)
		case evReadTimeout:
			k.Count("event_read_timeout", 1)
		case evWriteTimeout, evFailWrite:
			k.Count("event_write_fault", 1)
		case evHandlerErr:
			k.Count("event_handler_error", 1)
		case evHandlerPanic:
			k.Count("event_handler_panic", 1)
		case evAdvanceSmall:
			k.Count("event_virtual_time_advance", 1)
		case evPeerStartsRead:
			k.Count("event_peer_starts_reading", 1)
		}
	}
	pickEvent := func() int {
		c := r.Intn(100)
		switch {
		case c < 34:
			return evSend
		case c < 44:
			return evClose
		case c < 52:
			return evPeerClose
		case c < 60:
			return evReadTimeout
		case c < 66:
			return evWriteTimeout
		case c < 72:
			return evFailWrite
		case c < 80:
			return evHandlerErr
		case c < 86:
			return evHandlerPanic
		case c < 90:
			return evDeliverOK
		case c < 95:
			return evAdvanceSmall
		default:
			return evPeerStartsRead
		}
	}

	nsteps := 2 + r.Intn(10)
	ok := check("start")
	for s := 0; s < nsteps && ok; s++ {
		if y := ss[r.Intn(len(ss))]; y.ended && r.Intn(4) == 0 && h.exitCount(y.s) >= 1 {
			// the session is over (its exit callback has run, observed under the handler's lock):
			// swapping the handler now must not produce another exit callback
			y.s.UpdateHandler(h)
			k.Logf("step %d: (s%d has ended: UpdateHandler called on it)", s, y.id)
			k.Count("event_update_handler_after_exit", 1)
		}
		if r.Intn(100) < 75 {
			x := ss[r.Intn(len(ss))]
			a := plan(x, pickEvent())
			k.Logf("step %d: s%d %s%s", s, x.id, evNames[a.ev], map[bool]string{true: fmt.Sprintf(" x%d", a.n), false: ""}[a.ev == evSend])
			countEv(a.ev)
			if a.ev != evSend && a.ev != evDeliverOK && a.ev != evAdvanceSmall && a.ev != evPeerStartsRead {
				x.events++
				if x.events >= 2 || x.pending > 0 || len(x.accepted) > 0 {
					k.Nontrivial()
				}
			}
			before := len(x.accepted)
			wasEnded, wasClosedLocal := x.ended, x.closedLocal
			a.do()
			if a.ev == evSend && (wasEnded || wasClosedLocal) && len(x.accepted) != before {
				k.Fail("send-after-close-accepted", "step %d: Send on session s%d returned nil although the session was already closed/ended", s, x.id)
				cleanup()
				return
			}
			pre := fmt.Sprintf("ended=%v closed=%v wbroken=%v pending=%v reads=%v", x.ended, x.closedLocal, x.writeBroken, x.pending > 0, x.peerReads)
			model(a, before)
			k.C.ObserveStr("session_model_transitions", fmt.Sprintf("%s --%s--> ended=%v pending=%v", pre, evNames[a.ev], x.ended, x.pending > 0))
		} else {
			// burst: 2-3 simultaneous actions (possibly on the same session)
			nb := 2 + r.Intn(2)
			var acts []act
			var names []string
			target := ss[r.Intn(len(ss))]
			sending := map[*sess]bool{}
			for b := 0; b < nb; b++ {
				x := target
				if r.Intn(4) == 0 {
					x = ss[r.Intn(len(ss))]
				}
				ev := pickEvent()
				if ev == evPeerStartsRead {
					ev = evAdvanceSmall
				}
				if ev == evSend {
					// one sending goroutine per session: the order of frames from concurrent
					// senders is not defined, so it could not be judged
					if sending[x] {
						ev = evDeliverOK
					}
					sending[x] = true
				}
				a := plan(x, ev)
				acts = append(acts, a)
				names = append(names, fmt.Sprintf("s%d %s", x.id, evNames[a.ev]))
				countEv(a.ev)
			}
			k.Logf("step %d: burst{%s}", s, strings.Join(names, " || "))
			k.Count("burst_steps", 1)
			k.Nontrivial()
			gate := make(chan struct{})
			var wg sync.WaitGroup
			befores := map[*sess]int{}
			for _, a := range acts {
				befores[a.x] = len(a.x.accepted)
			}
			for _, a := range acts {
				a := a
				wg.Add(1)
				go func() { defer wg.Done(); <-gate; a.do() }()
			}
			Q.Wait()
			close(gate)
			wg.Wait()
			// model: per session touched by the burst
			touched := map[*sess][]act{}
			for _, a := range acts {
				touched[a.x] = append(touched[a.x], a)
			}
			for x, as := range touched {
				if x.ended {
					continue
				}
				must := false
				onlyBenign := true
				dataRaces := false // bytes arriving in the same burst can satisfy the read before its deadline is seen
				for _, a := range as {
					if a.ev == evDeliverOK {
						dataRaces = true
					}
				}
				rtOnly := false
				for _, a := range as {
					if a.ev == evReadTimeout && dataRaces {
						rtOnly = true
						continue
					}
					if alwaysTerminates(a.ev) {
						must = true
					}
					if a.ev != evDeliverOK && a.ev != evAdvanceSmall && !(a.ev == evSend && !x.writeBroken && !x.closedLocal && x.peerReads) {
						onlyBenign = false
					}
				}
				hasClose, hasSend, hasFault, hasWT := false, false, false, false
				for _, a := range as {
					if a.ev == evWriteTimeout {
						x.hadWT = true
					}
					switch a.ev {
					case evClose:
						hasClose = true
					case evSend:
						hasSend = true
					case evFailWrite:
						hasFault = true
					case evWriteTimeout:
						hasWT = true
					}
				}
				switch {
				case must:
					x.ended = true
				case rtOnly:
					// read timeout racing with arriving data: the read may be served first and a new
					// deadline armed; adopt the outcome (sticky facts below)
					if hasClose {
						x.closedLocal = true
					}
					if hasFault {
						x.writeBroken = true
					}
					if hasSend && !x.peerReads {
						x.pending += len(x.accepted) - befores[x]
					}
					x.uncertain = true
				case onlyBenign:
					// sends to a healthy reading peer / ok bytes: nothing ends
				case len(as) == 1:
					model(as[0], befores[x])
				case hasWT && x.peerReads && !x.writeBroken && !hasFault && !hasClose:
					// a write timeout racing with sends to a reading peer: a write that happens to be in
					// progress may fail (session ends) or nothing happens; adopt the outcome
					x.uncertain = true
				case hasClose && !hasFault && !hasWT && x.peerReads && !x.writeBroken:
					// local Close racing with sends to a reading peer: the session ends, and every
					// frame whose Send returned nil must have been flushed (judged below)
					x.closedLocal = true
					x.ended = true
					if x.events == 0 {
						x.events = 1
					}
				case hasClose && !hasSend && !hasWT && x.pending == 0:
					// Close (with or without a write fault) and nothing queued: the session ends
					x.closedLocal = true
					if hasFault {
						x.writeBroken = true
					}
					x.ended = true
				default:
					// combinations of close / write faults / sends: the order decides; adopt the outcome,
					// but keep the sticky facts
					if hasClose {
						x.closedLocal = true
					}
					if hasFault {
						x.writeBroken = true
					}
					if hasSend && !x.peerReads {
						x.pending += len(x.accepted) - befores[x]
					}
					x.uncertain = true
				}
			}
		}
		if !d.Quiesce() {
			cleanup()
			return
		}
		// a session the model keeps alive with a broken writer and queued frames must have ended
		k.Logf("        -> %s", describe())
		ok = check(fmt.Sprintf("step %d", s))
		k.Count("quiescent_cuts", 1)
		// local-close flush clause, judged when a reading peer saw nothing but sends and a Close
		for _, x := range ss {
			if ok && x.ended && x.closedLocal && x.peerReads && !x.writeBroken && !x.hadWT && x.events == 1 {
				rec, _, _ := x.conn.snapshot()
				want := bytes.Join(x.accepted, nil)
				k.Count("flush_checked_local_close", 1)
				k.Count("frames_delivered", int64(len(x.accepted)))
				x.events = 99 // judged once
				if !bytes.Equal(rec, want) {
					k.Fail("flush-incomplete", "session s%d was closed locally with a reading peer: Send accepted %d bytes %q but the peer received only %d bytes %q before the connection closed", x.id, len(want), want, len(rec), rec)
					ok = false
				}
			}
		}
	}
	if !ok {
		cleanup()
		return
	}
	// wind down: end every session that is still alive
	for _, x := range ss {
		if x.ended {
			continue
		}
		k.Logf("wind-down: s%d close", x.id)
		before := len(x.accepted)
		first := x.events == 0 && !x.writeBroken && !x.hadWT
		x.s.Close()
		model(act{x: x, ev: evClose}, before)
		if !d.Quiesce() {
			cleanup()
			return
		}
		if first && x.peerReads && x.ended {
			x.events = 1
		}
		if !x.ended {
			k.Logf("wind-down: s%d write-timeout (a write is blocked on a peer that does not read)", x.id)
			x.conn.failWrites(timeoutErr{})
			model(act{x: x, ev: evWriteTimeout}, len(x.accepted))
			if !d.Quiesce() {
				cleanup()
				return
			}
		}
		k.Logf("        -> %s", describe())
		if !check(fmt.Sprintf("wind-down of s%d", x.id)) {
			cleanup()
			return
		}
		if x.events == 1 && x.peerReads && !x.writeBroken && !x.hadWT {
			rec, _, _ := x.conn.snapshot()
			want := bytes.Join(x.accepted, nil)
			k.Count("flush_checked_local_close", 1)
			k.Count("frames_delivered", int64(len(x.accepted)))
			if !bytes.Equal(rec, want) {
				k.Fail("flush-incomplete", "session s%d was closed locally with a reading peer: Send accepted %d bytes but the peer received %d before the connection closed", x.id, len(want), len(rec))
				cleanup()
				return
			}
		}
	}
	// every session has ended: Send must be refused, nothing is left
	for _, x := range ss {
		if err := x.s.Send([]byte("late")); err == nil {
			k.Fail("send-after-close-accepted", "Send on the ended session s%d returned nil", x.id)
			return
		}
		x.s.Close() // closing again is harmless
	}
	if !d.Quiesce() {
		return
	}
	check("the end")
}

// ---------------------------------------------------------------- loop-back server

type srvHandler struct {
	srv     *stcp.Server
	mgr     stcp.IConnMgr
	max     atomic.Int32
	exits   atomic.Int32
	greet   sync.Map
	greets  atomic.Int32 // sessions this handler has greeted (proof that it is this server that listens on the address)
	live    atomic.Int32 // sessions between their first Read and OnExit (a subset of the live ones)
	maxLive atomic.Int32
}

func (h *srvHandler) Read(s *stcp.Session) error {
	n := h.mgr.ConnCount()
	for {
		o := h.max.Load()
		if n <= o || h.max.CompareAndSwap(o, n) {
			break
		}
	}
	if _, loaded := h.greet.LoadOrStore(s, true); !loaded {
		h.greets.Add(1)
		l := h.live.Add(1)
		for {
			o := h.maxLive.Load()
			if l <= o || h.maxLive.CompareAndSwap(o, l) {
				break
			}
		}
		if err := s.Send([]byte{'A'}); err != nil {
			return err
		}
	}
	var b [1]byte
	return s.Read(b[:])
}
func (h *srvHandler) OnExit(s *stcp.Session) {
	h.exits.Add(1)
	if _, ok := h.greet.Load(s); ok {
		h.live.Add(-1)
	}
}

// RunEcho makes srvHandler an IEcho as well: the request/reply session flavour of the same
// server frame (the connection count is released by the handler through ReleaseRef).
func (h *srvHandler) RunEcho(s *stcp.Echo) {
	defer func() {
		// the harness's own "live" count goes down before the manager's count is released, so
		// that live sessions are always a subset of the counted ones (the reverse order let a
		// monitor that had just seen the count at zero start a new round with live still at 1)
		h.live.Add(-1)
		h.exits.Add(1)
		s.Close()
		s.ReleaseRef()
	}()
	n := h.mgr.ConnCount()
	for {
		o := h.max.Load()
		if n <= o || h.max.CompareAndSwap(o, n) {
			break
		}
	}
	h.greets.Add(1)
	l := h.live.Add(1)
	for {
		o := h.maxLive.Load()
		if l <= o || h.maxLive.CompareAndSwap(o, l) {
			break
		}
	}
	if err := s.Send([]byte{'A'}); err != nil {
		return
	}
	var b [1]byte
	for s.Read(b[:]) == nil {
	}
}

func serverCase(k *engine.Case) {
	r := k.R
	m := []int{1, 2, 5}[r.Intn(3)]
	clients := 3 * m
	h := &srvHandler{}
	echo := r.Intn(3) == 0
	if echo {
		h.mgr = stcp.NewEchoMgr(h, stcp.WithReadTimeout(30*time.Second), stcp.WithWriteTimeout(30*time.Second))
		k.Count("server_rounds_echo_manager", 1)
	} else {
		h.mgr = stcp.NewSessionMgr(h, stcp.WithReadTimeout(30*time.Second), stcp.WithWriteTimeout(30*time.Second))
	}
	// find a free loop-back port
	ln, err := net.Listen("tcp", "127.0.0.1:0")
	if err != nil {
		k.Inconclusive("cannot listen on loop-back: " + err.Error())
		return
	}
	addr := ln.Addr().String()
	ln.Close()
	srv := stcp.NewTCPSrv(addr, h.mgr)
	ech := srv.Start(stcp.WithMaxConn(int32(m)), stcp.WithLogger(quietLogger))
	k.Logf("server %s max=%d clients=%d echo-manager=%v", addr, m, clients, echo)
	// bring-up: the port was free a moment ago, but another process may have taken it since
	// (then this server's listen fails, and dials reach somebody else). Go on only once a probe
	// connection has been greeted by *this* handler; otherwise the case decides nothing - and
	// the server, which may not be listening at all, is not touched again.
	up := false
	bring := time.Now().Add(60 * time.Second)
	for !up && time.Now().Before(bring) {
		select {
		case e := <-ech:
			k.Inconclusive("the loop-back server could not start (port taken in the meantime?): " + e.Error())
			return
		default:
		}
		before := h.greets.Load()
		pc, perr := net.DialTimeout("tcp", addr, time.Second)
		if perr != nil {
			time.Sleep(5 * time.Millisecond)
			continue
		}
		pc.SetReadDeadline(time.Now().Add(5 * time.Second))
		var pb [1]byte
		pn, _ := pc.Read(pb[:])
		pc.Close()
		if pn == 1 && pb[0] == 'A' && h.greets.Load() > before {
			up = true
		} else {
			time.Sleep(5 * time.Millisecond)
		}
	}
	if !up {
		k.Inconclusive("no probe connection was greeted by this case's server within the bring-up time")
		return
	}
	for w := time.Now().Add(20 * time.Second); (h.mgr.ConnCount() != 0 || h.live.Load() != 0) && time.Now().Before(w); {
		time.Sleep(2 * time.Millisecond)
	}
	if h.live.Load() != 0 {
		k.Inconclusive("the bring-up probe's session had not ended within the real-time guard")
		srv.Close()
		return
	}
	if c := h.mgr.ConnCount(); c != 0 {
		// the probe's session is over as far as its handler can tell (exit callback / echo handler
		// returned 20 s ago) and nothing else was ever connected
		k.Nontrivial()
		k.Fail("count-not-restored", "WithMaxConn(%d): one connection was served and has ended (its handler has returned), 20 s later ConnCount() is %d, not back at 0 (echo manager: %v)", m, c, echo)
		srv.Close()
		return
	}
	h.max.Store(0)
	h.maxLive.Store(0)
	k.Nontrivial()
	// connect clients one after another; each waits for greeting or close
	type cl struct {
		c        net.Conn
		accepted bool
		cut      bool
	}
	var cls []*cl
	deadline := time.Now().Add(60 * time.Second)
	fromEmpty := r.Intn(2) == 0 // burst against an idle server instead of a full one
	if fromEmpty {
		// wait until the listener is up
		for {
			c, derr := net.DialTimeout("tcp", addr, 2*time.Second)
			if derr == nil {
				c.Close()
				break
			}
			if time.Now().After(deadline) {
				k.Inconclusive("cannot connect to the loop-back server")
				return
			}
			time.Sleep(5 * time.Millisecond)
		}
		end0 := time.Now().Add(20 * time.Second)
		for h.mgr.ConnCount() != 0 && time.Now().Before(end0) {
			time.Sleep(2 * time.Millisecond)
		}
		clients = 0
		k.Logf("mode: burst against the idle server")
	}
	// sessions that reach the manager by another way than this server's accept loop (a second
	// listener, an upgraded connection handed over with Do): they count like any other
	direct := 0
	var directConns []net.Conn
	defer func() {
		for _, c := range directConns {
			c.Close()
		}
	}()
	wantDirect := 0
	if !fromEmpty && m >= 2 && r.Intn(2) == 0 {
		wantDirect = 1 + r.Intn(m-1)
	}
	for i := 0; i < clients; i++ {
		if i == 1 && wantDirect > 0 {
			for j := 0; j < wantDirect; j++ {
				l2, lerr := net.Listen("tcp", "127.0.0.1:0")
				if lerr != nil {
					break
				}
				cc, derr := net.DialTimeout("tcp", l2.Addr().String(), 2*time.Second)
				if derr != nil {
					l2.Close()
					break
				}
				sc, aerr := l2.Accept()
				l2.Close()
				if aerr != nil {
					cc.Close()
					break
				}
				directConns = append(directConns, cc)
				h.mgr.Do(sc)
				cc.SetReadDeadline(time.Now().Add(20 * time.Second))
				var b [1]byte
				if n, _ := cc.Read(b[:]); n != 1 || b[0] != 'A' {
					k.Inconclusive("a session handed to the manager with Do was not greeted in time")
					srv.Close()
					return
				}
				direct++
			}
			k.Logf("%d session(s) handed to the manager directly with Do (count now %d)", direct, h.mgr.ConnCount())
			k.Count("server_direct_sessions", int64(direct))
		}
		var c net.Conn
		for {
			c, err = net.DialTimeout("tcp", addr, 2*time.Second)
			if err == nil {
				break
			}
			select {
			case e := <-ech:
				k.Inconclusive("server failed to start: " + e.Error())
				return
			default:
			}
			if time.Now().After(deadline) {
				k.Inconclusive("cannot connect to the loop-back server")
				return
			}
			time.Sleep(5 * time.Millisecond)
		}
		x := &cl{c: c}
		c.SetReadDeadline(time.Now().Add(20 * time.Second))
		var b [1]byte
		n, rerr := c.Read(b[:])
		switch {
		case n == 1 && b[0] == 'A':
			x.accepted = true
		case rerr != nil:
			if ne, ok := rerr.(net.Error); ok && ne.Timeout() {
				// 20 s of silence on a connection the server should have closed (at its
				// limit) or greeted. Decide by order, not by time: the accept loop takes
				// connections in arrival order, so once a connection dialled later has been
				// greeted, this one has been through the accept branch; a surplus connection
				// that was handled has been closed, and the close arrives before anything
				// sent later on the loop-back.
				verdict := "client read timed out (loaded machine)"
				served := 0
				for _, y := range cls {
					if y.accepted {
						served++
					}
				}
				if served+direct == m && m > 0 {
					for _, y := range cls {
						if y.accepted {
							y.c.Close() // make room for one more session
							break
						}
					}
					wait := time.Now().Add(20 * time.Second)
					for int(h.mgr.ConnCount()) >= m && time.Now().Before(wait) {
						time.Sleep(2 * time.Millisecond)
					}
					if c2, derr := net.DialTimeout("tcp", addr, 5*time.Second); derr == nil {
						c2.SetReadDeadline(time.Now().Add(20 * time.Second))
						var b2 [1]byte
						if n2, _ := c2.Read(b2[:]); n2 == 1 && b2[0] == 'A' {
							c.SetReadDeadline(time.Now().Add(3 * time.Second))
							_, rerr2 := c.Read(b[:])
							if ne2, ok := rerr2.(net.Error); ok && ne2.Timeout() {
								verdict = ""
								k.Fail("surplus-not-closed", "WithMaxConn(%d) with %d sessions alive: a further connection was neither closed nor served, although a connection dialled after it has meanwhile been accepted and greeted (the accept loop has been past it)", m, m)
							}
						}
						c2.Close()
					}
				}
				if verdict != "" {
					k.Inconclusive(verdict)
				}
				for _, y := range cls {
					y.c.Close()
				}
				c.Close()
				srv.Close()
				return
			}
			x.cut = true
		}
		cls = append(cls, x)
	}
	acc, cut := 0, 0
	for _, x := range cls {
		if x.accepted {
			acc++
		}
		if x.cut {
			cut++
		}
	}
	k.Logf("accepted=%d cut=%d max ConnCount seen by handlers=%d", acc, cut, h.max.Load())
	k.Count("server_rounds", 1)
	k.Count("server_surplus_connections_cut", int64(cut))
	if int(h.max.Load()) > m || int(h.mgr.ConnCount()) > m {
		k.Fail("max-conn-exceeded", "ConnCount reached %d (now %d) with WithMaxConn(%d)", h.max.Load(), h.mgr.ConnCount(), m)
	}
	if acc+direct > m {
		k.Fail("max-conn-exceeded", "%d connections accepted by the server plus %d handed to the manager directly were served simultaneously with WithMaxConn(%d)", acc, direct, m)
	}
	if !fromEmpty && acc+direct == m && cut != clients-(m-direct) {
		k.Fail("surplus-not-closed", "%d of %d surplus connections were not closed on accept", clients-(m-direct)-cut, clients-(m-direct))
	}
	// burst phase: while the server is at its limit, many clients dial at the same moment; the
	// accept loop must keep closing the surplus (the count is taken synchronously on accept)
	if acc+direct == m || fromEmpty {
		burst := 4*m + 8
		if fromEmpty {
			burst = 8*m + 24
		}
		room := int32(m - acc - direct) // sessions the server may still serve
		var bwg sync.WaitGroup
		start := make(chan struct{})
		var bAcc, bCut, bErr atomic.Int32
		conns := make([]net.Conn, burst)
		for i := 0; i < burst; i++ {
			i := i
			bwg.Add(1)
			go func() {
				defer bwg.Done()
				<-start
				c, err := net.DialTimeout("tcp", addr, 5*time.Second)
				if err != nil {
					bErr.Add(1)
					return
				}
				conns[i] = c
				c.SetReadDeadline(time.Now().Add(20 * time.Second))
				var b [1]byte
				n, rerr := c.Read(b[:])
				switch {
				case n == 1 && b[0] == 'A':
					bAcc.Add(1)
				case rerr != nil:
					if ne, ok := rerr.(net.Error); ok && ne.Timeout() {
						bErr.Add(1)
					} else {
						bCut.Add(1)
					}
				}
			}()
		}
		close(start)
		bwg.Wait()
		k.Logf("burst of %d dials at the limit: served=%d cut=%d errors=%d; max live sessions seen=%d, max ConnCount seen=%d", burst, bAcc.Load(), bCut.Load(), bErr.Load(), h.maxLive.Load(), h.max.Load())
		k.Count("server_burst_dials", int64(burst))
		k.Count("server_surplus_connections_cut", int64(bCut.Load()))
		if bAcc.Load() > room || int(h.maxLive.Load()) > m || int(h.max.Load()) > m {
			k.Fail("max-conn-exceeded", "with WithMaxConn(%d) and %d sessions alive, a burst of %d simultaneous connections got %d more sessions served (max live sessions %d, max ConnCount %d)", m, acc, burst, bAcc.Load(), h.maxLive.Load(), h.max.Load())
		}
		for _, c := range conns {
			if c != nil {
				c.Close()
			}
		}
	}
	// clients leave; the count must return to zero
	for _, x := range cls {
		x.c.Close()
	}
	for _, c := range directConns {
		c.Close()
	}
	end := time.Now().Add(30 * time.Second)
	for h.mgr.ConnCount() != 0 {
		if time.Now().After(end) {
			k.Inconclusive("connection count did not return to zero within the real-time watchdog")
			break
		}
		time.Sleep(2 * time.Millisecond)
	}
	if h.mgr.ConnCount() == 0 {
		// every session that greeted has exited exactly once (live back to zero)
		end2 := time.Now().Add(10 * time.Second)
		for h.live.Load() != 0 && time.Now().Before(end2) {
			time.Sleep(2 * time.Millisecond)
		}
		if h.live.Load() != 0 {
			k.Fail("exit-callback-count", "the connection count is back to zero but %d served sessions never ran OnExit", h.live.Load())
		}
	}
	srv.Close()
	// let the accept loop and session goroutines drain before the next case
	for i := 0; i < 200 && Q.CountStacks("stcp.") > 0; i++ {
		time.Sleep(5 * time.Millisecond)
	}
}

// ---------------------------------------------------------------- flush over a real TCP connection

type flushHandler struct{ exits atomic.Int32 }

func (h *flushHandler) Read(s *stcp.Session) error {
	var b [1]byte
	return s.Read(b[:])
}
func (h *flushHandler) OnExit(s *stcp.Session) { h.exits.Add(1) }

// tcpFlushCase: a session on a real loop-back TCP connection queues more data than the socket
// buffers hold and is closed locally; the peer reads slowly to the end. Everything Send
// accepted must arrive, in order, before the connection ends (an abortive close - RST -
// would discard what the kernel had not delivered yet). Real time: the guard is inconclusive.
func tcpFlushCase(k *engine.Case) {
	r := k.R
	ln, err := net.Listen("tcp", "127.0.0.1:0")
	if err != nil {
		k.Inconclusive("cannot listen on loop-back: " + err.Error())
		return
	}
	defer ln.Close()
	type acc struct {
		c   net.Conn
		err error
	}
	ach := make(chan acc, 1)
	go func() { c, e := ln.Accept(); ach <- acc{c, e} }()
	cli, err := net.DialTimeout("tcp", ln.Addr().String(), 5*time.Second)
	if err != nil {
		k.Inconclusive("cannot dial loop-back: " + err.Error())
		return
	}
	defer cli.Close()
	a := <-ach
	if a.err != nil {
		k.Inconclusive("accept failed: " + a.err.Error())
		return
	}
	h := &flushHandler{}
	mgr := stcp.NewSessionMgr(h, stcp.WithReadTimeout(90*time.Second), stcp.WithWriteTimeout(90*time.Second))
	mgr.SetLogger(quietLogger)
	s := stcp.NewSession(mgr, a.c)
	s.Start()
	frames := 64 + r.Intn(200)
	fsize := []int{100, 1000, 4 << 10, 16 << 10, 32 << 10, 64 << 10}[r.Intn(6)]
	if fsize < 4<<10 {
		frames = 1000 + r.Intn(3000) // many small packets
	}
	lateStart := time.Duration(r.Intn(40)) * time.Millisecond
	k.Logf("real TCP session: %d frames of %d bytes (%d KiB) queued, then Close(); the peer starts reading after %v and pauses 1 ms every 64 KiB", frames, fsize, frames*fsize>>10, lateStart)
	k.Nontrivial()
	var want []byte
	accepted := 0
	for i := 0; i < frames; i++ {
		f := make([]byte, fsize)
		for j := range f {
			f[j] = byte(i*31 + j)
		}
		if err := s.Send(f); err == nil {
			want = append(want, f...)
			accepted++
		}
	}
	s.Close()
	time.Sleep(lateStart)
	cli.SetReadDeadline(time.Now().Add(60 * time.Second))
	got := make([]byte, 0, len(want))
	buf := make([]byte, 64<<10)
	var rerr error
	for {
		n, e := cli.Read(buf)
		got = append(got, buf[:n]...)
		if e != nil {
			rerr = e
			break
		}
		time.Sleep(time.Millisecond)
	}
	if ne, ok := rerr.(net.Error); ok && ne.Timeout() {
		k.Inconclusive("peer read timed out (loaded machine)")
		return
	}
	k.Count("tcp_flush_rounds", 1)
	k.Count("tcp_flush_bytes", int64(len(got)))
	k.Logf("peer received %d of %d accepted bytes, read ended with %v", len(got), len(want), rerr)
	if !bytes.Equal(got, want) {
		n := len(got)
		if n > len(want) {
			n = len(want)
		}
		prefix := bytes.Equal(got[:n], want[:n])
		k.Fail("flush-incomplete", "session closed locally on a real TCP connection: Send accepted %d frames (%d bytes) but the peer received %d bytes (a correct prefix: %v) before the connection ended with %v", accepted, len(want), len(got), prefix, rerr)
		return
	}
	// the session must have ended
	end := time.Now().Add(20 * time.Second)
	for (h.exits.Load() != 1 || mgr.ConnCount() != 0) && time.Now().Before(end) {
		time.Sleep(2 * time.Millisecond)
	}
	if h.exits.Load() != 1 || mgr.ConnCount() != 0 {
		k.Fail("session-not-ended", "after the flush and the local Close the session did not end: OnExit ran %d times, ConnCount=%d", h.exits.Load(), mgr.ConnCount())
	}
	for i := 0; i < 200 && Q.CountStacks("stcp.") > 0; i++ {
		time.Sleep(5 * time.Millisecond)
	}
}

package c16

import (
	"net"
	"sync/atomic"
	"time"

	"verifh/engine"

	"github.com/pinealctx/neptune/stcp"
	"github.com/pinealctx/neptune/ulog"
)

// pollMgr wraps a connection manager and counts how often the accept loop asked it for the
// connection count: proof that it is this case's server that took a connection off the
// address (and, through the atomic, an ordering edge from the accept loop to the case).
type pollMgr struct {
	inner stcp.IConnMgr
	polls atomic.Int32
	done  atomic.Int32 // connections handed to Do
}

func (p *pollMgr) ConnCount() int32 {
	p.polls.Add(1)
	return p.inner.ConnCount()
}
func (p *pollMgr) Do(c net.Conn)             { p.done.Add(1); p.inner.Do(c) }
func (p *pollMgr) SetLogger(l *ulog.Logger) { p.inner.SetLogger(l) }

// serverZeroCase: a configured maximum of zero is a maximum: the server serves nobody, every
// connection is closed on accept and the count stays at zero. Verdicts rest on positive
// evidence only: a greeting sent by this case's handler, or a count above zero seen by it.
func serverZeroCase(k *engine.Case) {
	r := k.R
	h := &srvHandler{}
	echo := r.Intn(3) == 0
	var inner stcp.IConnMgr
	if echo {
		inner = stcp.NewEchoMgr(h, stcp.WithReadTimeout(30*time.Second), stcp.WithWriteTimeout(30*time.Second))
	} else {
		inner = stcp.NewSessionMgr(h, stcp.WithReadTimeout(30*time.Second), stcp.WithWriteTimeout(30*time.Second))
	}
	pm := &pollMgr{inner: inner}
	h.mgr = inner
	ln, err := net.Listen("tcp", "127.0.0.1:0")
	if err != nil {
		k.Inconclusive("cannot listen on loop-back: " + err.Error())
		return
	}
	addr := ln.Addr().String()
	ln.Close()
	srv := stcp.NewTCPSrv(addr, pm)
	ech := srv.Start(stcp.WithMaxConn(0), stcp.WithLogger(quietLogger))
	clients := 3 + r.Intn(6)
	k.Logf("server %s WithMaxConn(0) clients=%d echo-manager=%v", addr, clients, echo)
	cut, handled := 0, 0
	deadline := time.Now().Add(60 * time.Second)
	for handled < clients {
		select {
		case e := <-ech:
			k.Inconclusive("the loop-back server could not start (port taken in the meantime?): " + e.Error())
			return
		default:
		}
		if time.Now().After(deadline) {
			break
		}
		before := pm.polls.Load()
		c, derr := net.DialTimeout("tcp", addr, time.Second)
		if derr != nil {
			time.Sleep(5 * time.Millisecond)
			continue
		}
		c.SetReadDeadline(time.Now().Add(20 * time.Second))
		var b [1]byte
		n, rerr := c.Read(b[:])
		c.Close()
		if ne, ok := rerr.(net.Error); ok && ne.Timeout() {
			break
		}
		// the accept loop of this server has been past a connection since the dial: wait for it
		// (the close / greeting seen above may have come from somebody else on a stolen port)
		for w := time.Now().Add(5 * time.Second); pm.polls.Load() == before && time.Now().Before(w); {
			time.Sleep(time.Millisecond)
		}
		if pm.polls.Load() == before {
			continue
		}
		handled++
		if n == 0 {
			cut++
		}
		if h.greets.Load() > 0 || pm.done.Load() > 0 {
			break
		}
	}
	k.Evals(1)
	if pm.polls.Load() == 0 {
		k.Inconclusive("this case's server never took a connection off its address within the bring-up time")
		return // the server may not be listening at all: not touched again
	}
	k.Nontrivial()
	if g, d := h.greets.Load(), pm.done.Load(); g > 0 || d > 0 {
		k.Fail("max-conn-exceeded", "WithMaxConn(0): %d of the first %d connections were handed to the connection manager and %d sessions were served and greeted (ConnCount seen by handlers up to %d)", d, handled, g, h.max.Load())
	} else if handled < clients {
		k.Inconclusive("client read timed out (loaded machine)")
	}
	k.Logf("connections taken by the accept loop=%d, closed without a byte=%d, sessions served=%d", handled, cut, h.greets.Load())
	k.Count("server_zero_rounds", 1)
	k.Count("server_surplus_connections_cut", int64(cut))
	srv.Close()
	for w := time.Now().Add(20 * time.Second); inner.ConnCount() != 0 && time.Now().Before(w); {
		time.Sleep(2 * time.Millisecond)
	}
	for i := 0; i < 200 && Q.CountStacks("stcp.") > 0; i++ {
		time.Sleep(5 * time.Millisecond)
	}
}

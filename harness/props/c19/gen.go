package c19

import (
	"fmt"
	"math/rand"
	"strings"

	"verifh/engine"
)

// ------------------------------------------------------------ generators

func randDigits(r *rand.Rand, n int) string {
	b := make([]byte, n)
	for i := range b {
		b[i] = byte('0' + r.Intn(10))
	}
	return string(b)
}

var areas = []string{"86", "1", "852", "+86", "44", "", "7", "+1"}

func pick(r *rand.Rand, xs ...int) int { return xs[r.Intn(len(xs))] }

func genConf(r *rand.Rand) conf {
	c := conf{
		mock:         r.Intn(100) < 40,
		codeLen:      pick(r, 1, 2, 4, 6, 6, 8, 1+r.Intn(8), 1+r.Intn(8)),
		maxVerify:    r.Intn(4),
		maxCount:     r.Intn(4),
		ttlNever:     r.Intn(100) < 75,
		expiredBy:    r.Intn(3),
		ivNever:      r.Intn(100) < 70,
		refreshNever: r.Intn(2) == 0,
	}
	if r.Intn(3) == 0 {
		c.neverKind = 1 + r.Intn(4)
	}
	return c
}

// genPhone: lengths biased around CodeLen (shorter, equal, one longer) and realistic.
func genPhone(r *rand.Rand, codeLen int) string {
	var n int
	switch r.Intn(8) {
	case 0:
		n = 1 + r.Intn(codeLen) // <= CodeLen
	case 1:
		n = codeLen
	case 2:
		n = codeLen + 1
	case 3:
		n = codeLen - 1
	case 4, 5:
		n = 11
	default:
		n = 2 + r.Intn(12)
	}
	if n < 1 {
		n = 1
	}
	return randDigits(r, n)
}

// genPairs returns n distinct pairs; later pairs are (with high probability) confusable
// variants of an earlier one: same concatenation with the cut moved, same phone under
// another area, same trailing CodeLen digits, one digit off.
func genPairs(r *rand.Rand, codeLen, n int, confusable bool) []pair {
	var out []pair
	seen := map[pair]bool{}
	add := func(p pair) bool {
		if p.phone == "" || seen[p] {
			return false
		}
		seen[p] = true
		out = append(out, p)
		return true
	}
	add(pair{areas[r.Intn(len(areas))], genPhone(r, codeLen)})
	for tries := 0; len(out) < n && tries < 50; tries++ {
		b := out[r.Intn(len(out))]
		v := r.Intn(10)
		if confusable && v >= 6 {
			v = r.Intn(6)
		}
		switch v {
		case 0, 1: // move the cut of the concatenation to the right
			if len(b.phone) >= 2 {
				add(pair{b.area + b.phone[:1], b.phone[1:]})
			}
		case 2: // move the cut to the left
			if len(b.area) >= 1 && b.area[len(b.area)-1] != '+' && b.area[:len(b.area)-1] != "+" {
				add(pair{b.area[:len(b.area)-1], b.area[len(b.area)-1:] + b.phone})
			}
		case 3: // same phone, other area
			add(pair{areas[r.Intn(len(areas))], b.phone})
		case 4: // same trailing digits (same mock code), other head
			k := codeLen
			if k > len(b.phone) {
				k = len(b.phone)
			}
			add(pair{b.area, randDigits(r, 1+r.Intn(4)) + b.phone[len(b.phone)-k:]})
		case 5: // one digit off
			pb := []byte(b.phone)
			j := r.Intn(len(pb))
			if r.Intn(2) == 0 {
				j = len(pb) - 1
			}
			pb[j] = byte('0' + (int(pb[j]-'0')+1+r.Intn(9))%10)
			add(pair{b.area, string(pb)})
		default:
			add(pair{areas[r.Intn(len(areas))], genPhone(r, codeLen)})
		}
	}
	return out
}

// pickCode derives a code argument for pair i: the right one with probability rightPct %,
// else a wrong-looking derivation of it.
func (w *world) pickCode(i int, rightPct int) (string, string) {
	r, s := w.r, &w.st[i]
	base := s.code
	if !s.sent {
		base = mockCode(w.pairs[i].phone, w.cf.codeLen)
	}
	if r.Intn(100) < rightPct {
		return base, "right"
	}
	switch r.Intn(9) {
	case 0:
		return randDigits(r, w.cf.codeLen), "random"
	case 1:
		b := []byte(base)
		if len(b) == 0 {
			return "0", "random"
		}
		j := r.Intn(len(b))
		b[j] = byte('0' + (int(b[j]-'0')+1+r.Intn(9))%10)
		return string(b), "one-digit-off"
	case 2:
		if len(base) > 0 {
			return base[:len(base)-1], "truncated"
		}
		return "", "empty"
	case 3:
		return base + string(byte('0'+r.Intn(10))), "extended"
	case 4:
		return "", "empty"
	case 5:
		if s.hasPrev {
			return s.prevCode, "stale"
		}
		return randDigits(r, w.cf.codeLen), "random"
	case 6:
		if j := w.otherSent(i); j >= 0 {
			return w.st[j].code, fmt.Sprintf("of-p%d", j)
		}
		return randDigits(r, w.cf.codeLen), "random"
	case 7:
		if len(base) > 1 {
			return base[1:], "head-cut"
		}
		return "0" + base, "zero-prefixed"
	default:
		return " " + base, "space-prefixed"
	}
}

func (w *world) pickHash(i int, rightPct int) (string, string) {
	r, s := w.r, &w.st[i]
	base := s.hash
	if !s.sent {
		base = fmt.Sprintf("%032x", r.Uint64())
	}
	if r.Intn(100) < rightPct {
		return base, "right"
	}
	switch r.Intn(9) {
	case 0:
		return "", "empty"
	case 1:
		if s.hasPrev {
			return s.prevHash, "stale"
		}
		return "", "empty"
	case 2:
		if j := w.otherSent(i); j >= 0 {
			return w.st[j].hash, fmt.Sprintf("of-p%d", j)
		}
		return fmt.Sprintf("%016x%016x", r.Uint64(), r.Uint64()), "random"
	case 3:
		if len(base) > 0 {
			b := []byte(base)
			j := r.Intn(len(b))
			if b[j] == '0' {
				b[j] = '1'
			} else {
				b[j] = '0'
			}
			return string(b), "one-char-off"
		}
		return "0", "one-char-off"
	case 4:
		return strings.ToUpper(base), "upper-cased"
	case 5:
		if len(base) > 0 {
			return base[:len(base)-1], "truncated"
		}
		return "x", "random"
	case 6:
		return base + "0", "extended"
	case 7:
		return s.code, "the-code"
	default:
		return fmt.Sprintf("%016x%016x", r.Uint64(), r.Uint64()), "random"
	}
}

// otherSent returns a pair other than i that holds a live code (-1 if none).
func (w *world) otherSent(i int) int {
	var c []int
	for j := range w.st {
		if j != i && w.st[j].sent {
			c = append(c, j)
		}
	}
	if len(c) == 0 {
		return -1
	}
	return c[w.r.Intn(len(c))]
}

func (w *world) anySent() int {
	var c []int
	for j := range w.st {
		if w.st[j].sent {
			c = append(c, j)
		}
	}
	if len(c) == 0 {
		return -1
	}
	return c[w.r.Intn(len(c))]
}

func (w *world) verifyRight(i int) {
	c, cd := w.pickCode(i, 100)
	h, hd := w.pickHash(i, 100)
	w.verify(i, c, h, cd, hd)
}

// verifyWrong: at least one of code / hash is derived as a wrong value (it may still
// coincide with the right one by value; the model classifies by value).
func (w *world) verifyWrong(i int) {
	var c, cd, h, hd string
	switch w.r.Intn(3) {
	case 0:
		c, cd = w.pickCode(i, 0)
		h, hd = w.pickHash(i, 100)
	case 1:
		c, cd = w.pickCode(i, 100)
		h, hd = w.pickHash(i, 0)
	default:
		c, cd = w.pickCode(i, 0)
		h, hd = w.pickHash(i, 0)
	}
	w.verify(i, c, h, cd, hd)
}

// verifyForeign verifies pair i with the credentials of another pair's live code.
func (w *world) verifyForeign(i int) {
	j := w.otherSent(i)
	if j < 0 {
		w.verifyWrong(i)
		return
	}
	d := fmt.Sprintf("of-p%d", j)
	switch w.r.Intn(4) {
	case 0:
		if w.st[i].sent {
			w.verify(i, w.st[i].code, w.st[j].hash, "right", d)
			return
		}
		fallthrough
	case 1:
		if w.st[i].sent {
			w.verify(i, w.st[j].code, w.st[i].hash, d, "right")
			return
		}
		fallthrough
	default:
		w.verify(i, w.st[j].code, w.st[j].hash, d, d)
	}
}

// burst: m wrong attempts, then right ones - m aimed at the attempt limit.
func (w *world) burst(i int) {
	mv := w.cf.maxVerify
	m := pick(w.r, mv-1, mv, mv+1, w.r.Intn(mv+3))
	if m < 0 {
		m = 0
	}
	if w.longBursts {
		// hundreds or tens of thousands of attempts against one sent code: an attempt counter
		// kept in a narrow integer wraps around and lets the right code through again
		switch x := w.r.Intn(600); {
		case x == 0:
			m = 65534 + w.r.Intn(4)
			w.k.Count("attempt_bursts_over_65535", 1)
		case x < 24:
			m = pick(w.r, 253, 254, 255, 256, 257, 300, 511, 512)
			w.k.Count("attempt_bursts_over_250", 1)
		}
	}
	for x := 0; x < m; x++ {
		w.verifyWrong(i)
	}
	for x := 1 + w.r.Intn(2); x > 0; x-- {
		w.verifyRight(i)
	}
}

// ------------------------------------------------------------ kinds

// historyCase: free mix of all calls over 1-5 pairs under any configuration.
func historyCase(k *engine.Case) {
	r := k.R
	cf := genConf(r)
	w := newWorld(k, cf, genPairs(r, cf.codeLen, 1+r.Intn(5), r.Intn(2) == 0))
	steps := 10 + r.Intn(31)
	for w.calls < steps && !w.dead {
		i := r.Intn(len(w.pairs))
		sent := w.anySent()
		if sent < 0 {
			if r.Intn(10) < 7 {
				w.send(i)
			} else {
				w.verifyWrong(i)
			}
			continue
		}
		if r.Intn(4) != 0 {
			i = sent
		}
		x := r.Intn(100)
		if st := &w.st[i]; st.sent && st.attempts >= cf.maxVerify && r.Intn(100) < 55 {
			x = 0 // the code is used up: mostly ask for a new one
		}
		switch {
		case x < 25:
			w.send(i)
		case x < 55:
			w.verifyRight(i)
		case x < 75:
			w.verifyWrong(i)
		case x < 88:
			w.verifyForeign(i)
		default:
			w.burst(i)
		}
	}
	w.finish()
}

// attemptsCase: the attempt bound and its reset by a new send.
func attemptsCase(k *engine.Case) {
	r := k.R
	cf := genConf(r)
	cf.ttlNever, cf.ivNever = true, true
	cf.refreshNever = r.Intn(10) < 3
	if cf.refreshNever {
		cf.maxCount = 1 + r.Intn(3)
	}
	w := newWorld(k, cf, genPairs(r, cf.codeLen, 1+r.Intn(2), false))
	w.longBursts = true
	rounds := 1 + r.Intn(4)
	for x := 0; x < rounds && !w.dead; x++ {
		i := 0
		if r.Intn(4) == 0 {
			i = r.Intn(len(w.pairs))
		}
		w.send(i)
		if !w.st[i].sent {
			continue
		}
		w.burst(i)
		if r.Intn(3) == 0 {
			// keep going past the limit
			for y := r.Intn(3); y >= 0; y-- {
				if r.Intn(2) == 0 {
					w.verifyRight(i)
				} else {
					w.verifyWrong(i)
				}
			}
		}
		if len(w.pairs) > 1 && r.Intn(3) == 0 {
			w.verifyForeign(1 - i)
		}
	}
	w.finish()
}

// sendlimitCase: minimum interval and per-window count; a refused send leaves the
// previously sent code usable.
func sendlimitCase(k *engine.Case) {
	r := k.R
	cf := genConf(r)
	cf.ttlNever = r.Intn(10) < 8
	cf.expiredBy = r.Intn(3)
	cf.ivNever = r.Intn(10) < 6
	if cf.maxVerify == 0 && r.Intn(2) == 0 {
		cf.maxVerify = 3
	}
	w := newWorld(k, cf, genPairs(r, cf.codeLen, 1+r.Intn(3), r.Intn(2) == 0))
	var plan []int
	for i := range w.pairs {
		for n := cf.maxCount + 2 + r.Intn(3); n > 0; n-- {
			plan = append(plan, i)
		}
	}
	r.Shuffle(len(plan), func(a, b int) { plan[a], plan[b] = plan[b], plan[a] })
	for _, i := range plan {
		if w.dead {
			break
		}
		w.send(i)
		if j := w.anySent(); j >= 0 {
			switch r.Intn(6) {
			case 0, 1:
				w.verifyRight(j)
			case 2:
				w.verifyWrong(j)
			}
		}
	}
	w.finish()
}

// otherphoneCase: codes and hashes of one pair presented for another, pairs chosen
// to be confusable (same concatenation, same phone, same trailing digits).
func otherphoneCase(k *engine.Case) {
	r := k.R
	cf := genConf(r)
	cf.ttlNever, cf.ivNever = true, true
	if r.Intn(3) != 0 {
		cf.maxVerify = 3
	}
	if cf.maxCount == 0 {
		cf.maxCount = 1 + r.Intn(3)
	}
	w := newWorld(k, cf, genPairs(r, cf.codeLen, 2+r.Intn(3), true))
	nsend := 1 + r.Intn(len(w.pairs))
	for _, i := range r.Perm(len(w.pairs))[:nsend] {
		w.send(i)
	}
	for n := 4 + r.Intn(8); n > 0 && !w.dead; n-- {
		i := r.Intn(len(w.pairs))
		switch x := r.Intn(10); {
		case x < 6:
			w.verifyForeign(i)
		case x < 8:
			if w.st[i].sent {
				w.verifyRight(i)
			} else {
				w.verifyForeign(i)
			}
		case x < 9:
			w.verifyWrong(i)
		default:
			w.send(i)
		}
	}
	for i := range w.pairs {
		if w.st[i].sent {
			w.verifyRight(i)
		}
	}
	w.finish()
}

// lifetimeCase: TTL always-expired against TTL never-expires, attempts kept out of the way.
func lifetimeCase(k *engine.Case) {
	r := k.R
	cf := genConf(r)
	cf.ttlNever = r.Intn(2) == 0
	cf.expiredBy = r.Intn(3)
	cf.ivNever = true
	cf.maxVerify = 1 + r.Intn(3)
	cf.maxCount = 1 + r.Intn(3)
	w := newWorld(k, cf, genPairs(r, cf.codeLen, 1+r.Intn(2), false))
	for x := 1 + r.Intn(3); x > 0 && !w.dead; x-- {
		i := r.Intn(len(w.pairs))
		w.send(i)
		if !w.st[i].sent {
			continue
		}
		for y := 1 + r.Intn(3); y > 0; y-- {
			if r.Intn(4) == 0 {
				w.verifyWrong(i)
			} else {
				w.verifyRight(i)
			}
		}
	}
	w.finish()
}

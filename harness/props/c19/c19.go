// Package c19 monitors vcode: a sent verification code verifies while it is inside
// its lifetime and attempt limit and nothing else verifies; attempts and sends are
// bounded; generated codes have the configured length and use the whole alphabet.
//
// Every clause is judged against a small model of one (area, phone) entry:
//
//	send    refused  <= MinInterval=always and an earlier send to the pair was accepted
//	        refused  <= window never refreshes and more than MaxCount sends were accepted
//	        accepted <= fewer than MaxCount sends were accepted in the window
//	        (the MaxCount+1-th send of a window is accepted by the implementation; the
//	        statement does not say on which side of the limit the refusal starts, so
//	        both outcomes are taken for exactly that send and the model follows what
//	        was observed)
//	verify  attempt n against the current code: n > MaxVerifyCount -> fails; else
//	        succeeds iff code and hash equal (by value) the ones of the latest accepted
//	        send to the same pair and TTL=never.
//
// Lifetimes and intervals are only ever 1000 h / 0 / -1 s ("never" / "always"), so no
// verdict depends on how fast the case runs.
package c19

import (
	"fmt"
	"math"
	"math/rand"
	"strings"
	"sync"
	"time"

	"verifh/engine"

	"github.com/pinealctx/neptune/tex"
	"github.com/pinealctx/neptune/vcode"
)

// Prop is the C19 check.
var Prop = &engine.Prop{
	ID:    "C19",
	Level: "exploration",
	Rule: "history kinds: a case is one seed-generated configuration (mock/real sender, CodeLen 1-8, MaxVerifyCount 0-3, MaxCount 0-3, TTL/MinInterval/CounterDuration in the always/never regimes) " +
		"plus one send/verify history over 1-5 (area, phone) pairs (pairs biased to share a concatenation, a phone, or the trailing digits; verify arguments are the right value or a stale / foreign / truncated / extended / one-character-off one), " +
		"every call judged against the per-pair model; non-trivial = at least one send was accepted and at least one further call was judged; distinct = distinct symbolic program texts (configuration, pairs, calls, right/wrong flags, outcomes; random codes and hashes abstracted). " +
		"codes kind: >= 12000 digits of codes captured from the real-sender path, each code one evaluation. nonce kind: GenNonceStr/SecGenNonceStr over generated alphabets, each call one evaluation, distinct = (function, alphabet, length).",
	Assumptions: []string{
		"area codes are an optional '+' followed by digits (possibly empty), phones are non-empty digit strings; neither contains the '-' the cache key is joined with",
		"the cache holds at least as many entries as there are pairs in a history (no eviction of a live code)",
		"the SMS sender itself never fails (the statement is silent about a failing carrier)",
		"TTL / MinInterval / CounterDuration only in {1000h, 0, -1s}: the process clock is monotonic and a case takes far less than 1000 h",
		"attempts are counted per sent code over all verify calls against the pair, successful or not (the implementation's and the design's reading)",
		"mock mode: the code of a phone shorter than CodeLen is the phone left-padded with '0' (the only padding that keeps 'the last CodeLen digits' of the number)",
		"alphabets of the nonce generator are non-empty strings of single-byte characters; whole-alphabet coverage is judged over >= 1200*len(alphabet) drawn characters (miss probability < 1e-500 for a uniform draw)",
	},
	ShardsQuick: 4, ShardsThorough: 16,
	Kinds: []engine.Kind{
		{Name: "history", Quick: 40000, Thorough: 4800000, Fn: historyCase},
		{Name: "attempts", Quick: 10000, Thorough: 1200000, Fn: attemptsCase},
		{Name: "sendlimit", Quick: 10000, Thorough: 1200000, Fn: sendlimitCase},
		{Name: "otherphone", Quick: 10000, Thorough: 1200000, Fn: otherphoneCase},
		{Name: "lifetime", Quick: 5000, Thorough: 600000, Fn: lifetimeCase},
		{Name: "codes", Quick: 24, Thorough: 2880, Fn: codesCase},
		{Name: "nonce", Quick: 300, Thorough: 36000, Fn: nonceCase},
		{Name: "delivery-failure", Quick: 6000, Thorough: 300000, Fn: deliveryFailCase},
		{Name: "tight-cache", Quick: 4000, Thorough: 300000, Fn: tightCacheCase},
	},
	Floors: map[string]int64{
		"verify_right_accepted":              500,
		"verify_right_accepted_at_limit":     50,
		"verify_right_accepted_after_wrong":  50,
		"verify_right_accepted_after_resend": 50,
		"verify_repeat_right_accepted":       50,
		"verify_over_limit_right_rejected":   50,
		"verify_over_limit_wrong_rejected":   20,
		"verify_wrong_code_rejected":         100,
		"verify_wrong_hash_rejected":         100,
		"verify_other_pair_creds_rejected":   50,
		"verify_colliding_pair_rejected":     20,
		"verify_no_code_rejected":            20,
		"verify_expired_rejected":            50,
		"verify_stale_creds_rejected":        10,
		"verify_right_after_refused_send":    20,
		"mock_padded_code_accepted":          10,
		"send_accepted":                      1000,
		"send_interval_refused":              100,
		"send_count_refused":                 100,
		"send_window_refresh_beyond_count":   50,
		"send_at_limit_either":               20,
		"codes_checked":                      20000,
		"codes_alphabet_complete":            8,
		"nonce_alphabet_complete":            50,
		"nonce_one_char_alphabet":            2,
		"tight_verify_judged":                500,
	},
}

const digits = "0123456789"

type msg struct{ area, phone, code string }

// fakeSMS is the capturing SMS sender.
type fakeSMS struct{ msgs []msg }

func (f *fakeSMS) SendCode(area, phone, code string) error {
	// a gateway renders the text into its message at delivery time: keep copies, not the
	// caller's strings
	f.msgs = append(f.msgs, msg{strings.Clone(area), strings.Clone(phone), strings.Clone(code)})
	return nil
}

// conf is one configuration of the module.
type conf struct {
	mock                            bool
	codeLen, maxVerify, maxCount    int
	ttlNever, ivNever, refreshNever bool
	// expiredBy selects how the "always expired" lifetime is written: 0 = -1s, 1 = -1ms,
	// 2 = -1ns (all of them are already over at any later instant; exactly 0 is not used: two
	// clock readings may coincide)
	expiredBy int
	neverKind int // how "never" is written (see config)
}

func (c conf) String() string {
	b2s := func(never bool, a, n string) string {
		if never {
			return n
		}
		return a
	}
	mode := "real-sender"
	if c.mock {
		mode = "mock"
	}
	return fmt.Sprintf("%s CodeLen=%d MaxVerifyCount=%d MaxCount=%d TTL=%s MinInterval=%s CounterDuration=%s",
		mode, c.codeLen, c.maxVerify, c.maxCount,
		b2s(c.ttlNever, []string{"-1s", "-1ms", "-1ns"}[c.expiredBy%3]+"(always expired)", "1000h(never expires)"),
		b2s(c.ivNever, "1000h(always too close)", "0(never too close)"),
		b2s(c.refreshNever, "-1s(window always refreshes)", "1000h(window never refreshes)"))
}

const (
	never  = 1000 * time.Hour
	always = -time.Second
)

func (c conf) config(cacheSize int64) *vcode.Config {
	cf := &vcode.Config{CacheSize: cacheSize, Mock: c.mock, CodeLen: c.codeLen,
		MaxCount: c.maxCount, MaxVerifyCount: c.maxVerify}
	// "never" (a lifetime / interval / window that does not end during a case) is written as
	// 1000 h or as one of the largest durations there are
	nv := []time.Duration{never, math.MaxInt64, math.MaxInt64 - 1, 1 << 62, 290 * 365 * 24 * time.Hour}[c.neverKind%5]
	if c.ttlNever {
		cf.TTL = tex.Duration(nv)
	} else {
		cf.TTL = tex.Duration([]time.Duration{always, -time.Millisecond, -time.Nanosecond}[c.expiredBy%3])
	}
	if c.ivNever {
		cf.MinInterval = tex.Duration(0)
	} else {
		cf.MinInterval = tex.Duration(nv)
	}
	if c.refreshNever {
		cf.CounterDuration = tex.Duration(nv)
	} else {
		cf.CounterDuration = tex.Duration(always)
	}
	return cf
}

type pair struct{ area, phone string }

func (p pair) String() string { return "(" + p.area + "," + p.phone + ")" }

// pstate is the model of one (area, phone) entry.
type pstate struct {
	sent         bool
	code         string // code of the latest accepted send
	hash         string // hash returned by the latest accepted send
	attempts     int    // verify calls against the current code
	window       int    // sends accepted in the current counting window
	ever         bool   // some send was accepted
	prevCode     string // code/hash of the send before the latest (stale credentials)
	prevHash     string
	hasPrev      bool
	wrongs       int  // failed (wrong) attempts against the current code
	successes    int  // successful verifications of the current code
	overPrev     bool // the previous code's attempts were exhausted when it was replaced
	refusedSince bool // a send was refused since the latest accepted send
}

type world struct {
	nilCache        bool
	mk              func() vcode.VCLogic // builds another logic instance the way the first one was built
	longBursts      bool                 // attemptsCase: some bursts of hundreds / tens of thousands of wrong attempts
	k               *engine.Case
	r               *rand.Rand
	cf              conf
	lg              vcode.VCLogic
	sms             *fakeSMS
	pairs           []pair
	st              []pstate
	prog            []string // symbolic program text (distinct identity)
	dead            bool
	calls           int
	judgedAfterSend int
	accepted        int
}

func newWorld(k *engine.Case, cf conf, pairs []pair) *world {
	w := &world{k: k, r: k.R, cf: cf, sms: &fakeSMS{}, pairs: pairs, st: make([]pstate, len(pairs))}
	size := int64(len(pairs) + k.R.Intn(3))
	cfg := cf.config(size)
	// the third argument: a cache of the caller's, or nil (the module then makes its own)
	w.nilCache = k.R.Intn(3) == 0
	w.mk = func() vcode.VCLogic {
		if w.nilCache {
			return vcode.NewSimpleLogic(cfg, w.sms, nil)
		}
		return vcode.NewSimpleLogic(cfg, w.sms, vcode.NewSimpleCache(size))
	}
	w.lg = w.mk()
	if w.nilCache {
		k.Count("cfg_nil_cache_argument", 1)
	}
	hdr := "config: " + cf.String() + fmt.Sprintf(" CacheSize=%d", size)
	k.Logf("%s", hdr)
	w.prog = append(w.prog, hdr)
	for i, p := range pairs {
		l := fmt.Sprintf("p%d = %s", i, p)
		k.Logf("%s", l)
		w.prog = append(w.prog, l)
	}
	if cf.mock {
		k.Count("cfg_mock", 1)
	} else {
		k.Count("cfg_real_sender", 1)
	}
	if !cf.ttlNever {
		k.Count("cfg_ttl_always_expired", 1)
	}
	if !cf.ivNever {
		k.Count("cfg_interval_always", 1)
	}
	if cf.refreshNever {
		k.Count("cfg_window_never_refreshes", 1)
	}
	return w
}

func (w *world) fail(class, format string, a ...any) {
	w.dead = true
	report(w.k, class, format, a...)
}

// The engine keeps the first 40 violations of a child; a defect that fails almost
// every case (the cache-key mismatch) would fill them and hide every other class.
// So each child reports a class at most maxPerClass times through Case.Fail and
// counts the rest (the run is already "violated" by then; a replay is a fresh
// process and always reports).
const maxPerClass = 2

var (
	reportMu sync.Mutex
	reported = map[string]int{}
)

func report(k *engine.Case, class, format string, a ...any) {
	reportMu.Lock()
	reported[class]++
	n := reported[class]
	reportMu.Unlock()
	if n > maxPerClass {
		k.Count("violations_not_listed:"+class, 1)
		return
	}
	k.Fail(class, format, a...)
}

// finish registers the case with the distinct / non-trivial accounting.
func (w *world) finish() {
	// logic instances are independent: a second instance built the same way has been sent
	// nothing, so it must not accept the codes the first one sent
	if !w.dead && w.mk != nil {
		other := w.mk()
		for i := range w.st {
			if !w.st[i].sent {
				continue
			}
			p := w.pairs[i]
			err := other.VerifySMSCode(p.area, p.phone, w.st[i].code, w.st[i].hash)
			w.k.Evals(1)
			w.k.Count("other_instance_verifications", 1)
			if err == nil {
				w.fail("other-instance-accepted", "a second logic instance (built like the first, nothing sent through it) accepted the code %q / hash sent to p%d=%s by the first instance; %s", w.st[i].code, i, p, w.cf)
				break
			}
		}
	}
	if w.accepted > 0 && w.judgedAfterSend > 0 {
		w.k.Nontrivial()
		w.k.Distinct(engine.HashStr(strings.Join(w.prog, "\n")))
	}
	w.k.Count("calls_judged", int64(w.calls))
}

func errName(err error) string {
	switch err {
	case nil:
		return "ok"
	case vcode.ErrSendTooFreq:
		return "send.code.freq.limit"
	case vcode.ErrSendCountLimit:
		return "send.code.count.limit"
	case vcode.ErrVerifyCodeRetryLimit:
		return "verify.code.retry.limit"
	case vcode.ErrVerifyCodeNotExist:
		return "verify.code.not.exist"
	case vcode.ErrVerifyCodeTimeout:
		return "verify.code.timeout"
	case vcode.ErrVerifyCodeNotMatch:
		return "verify.code.not.match"
	case vcode.ErrVerifyCodeHashNotMatch:
		return "verify.hash.code.not.match"
	}
	return "other-error"
}

// mockCode is the documented mock-mode code: the last n digits of the phone.
func mockCode(phone string, n int) string {
	if len(phone) >= n {
		return phone[len(phone)-n:]
	}
	return strings.Repeat("0", n-len(phone)) + phone
}

func allDigits(s string) bool {
	for i := 0; i < len(s); i++ {
		if s[i] < '0' || s[i] > '9' {
			return false
		}
	}
	return true
}

// send performs SendSMSCode on pair i and judges the outcome.
func (w *world) send(i int) {
	if w.dead {
		return
	}
	p, s := w.pairs[i], &w.st[i]
	before := len(w.sms.msgs)
	hash, err := w.lg.SendSMSCode(p.area, p.phone)
	w.calls++
	if w.accepted > 0 {
		w.judgedAfterSend++
	}
	window := 0
	if w.cf.refreshNever {
		window = s.window
	}
	const (
		either = iota
		mustAccept
		mustRefuse
	)
	exp, why := either, "at the limit"
	switch {
	case !w.cf.ivNever && s.ever:
		exp, why = mustRefuse, "interval"
	case window > w.cf.maxCount:
		exp, why = mustRefuse, "count"
	case window < w.cf.maxCount:
		exp, why = mustAccept, "within limits"
	}
	out := "accepted"
	if err != nil {
		out = "refused " + errName(err)
	}
	w.prog = append(w.prog, fmt.Sprintf("send p%d [%s] -> %s", i, why, out))
	if err != nil {
		w.k.Logf("send p%d -> refused: %s   (model: accepted-in-window=%d ever-accepted=%v; %s)", i, errName(err), window, s.ever, why)
		w.k.Count("err_"+errName(err), 1)
		if exp == mustAccept {
			w.fail("send-refused-within-limits", "send to p%d=%s refused (%v) although only %d < MaxCount=%d sends were accepted in its window and no interval applies; %s",
				i, p, err, window, w.cf.maxCount, w.cf)
			return
		}
		if len(w.sms.msgs) != before {
			w.fail("refused-send-delivered", "send to p%d=%s was refused (%v) but the SMS sender was called with %v", i, p, err, w.sms.msgs[before:])
			return
		}
		switch why {
		case "interval":
			w.k.Count("send_interval_refused", 1)
		case "count":
			w.k.Count("send_count_refused", 1)
		default:
			// refused exactly at the limit: the other legitimate side of "beyond the limit"
			w.k.Count("send_count_refused", 1)
			w.k.Count("send_at_limit_either", 1)
			w.k.Count("send_at_limit_refused", 1)
		}
		s.refusedSince = s.sent
		return
	}
	// accepted
	if exp == mustRefuse {
		w.k.Logf("send p%d -> accepted hash=%q   (model: accepted-in-window=%d ever-accepted=%v)", i, hash, window, s.ever)
		if why == "interval" {
			w.fail("send-not-refused-interval", "send to p%d=%s accepted although MinInterval=1000h and an earlier send to the pair was accepted; %s", i, p, w.cf)
		} else {
			w.fail("send-not-refused-count", "send to p%d=%s accepted although %d sends were already accepted in a window that never refreshes (MaxCount=%d, so more than MaxCount+1 sends in one window); %s",
				i, p, window, w.cf.maxCount, w.cf)
		}
		return
	}
	var code string
	got := w.sms.msgs[before:]
	if w.cf.mock {
		code = mockCode(p.phone, w.cf.codeLen)
		if len(got) != 0 {
			w.k.Count("mock_sender_called", 1)
		}
	} else {
		if len(got) != 1 || got[0].area != p.area || got[0].phone != p.phone {
			w.k.Logf("send p%d -> accepted hash=%q, SMS sender calls: %v", i, hash, got)
			w.fail("sms-misdelivery", "accepted send to p%d=%s in real-sender mode called the SMS sender with %v (want exactly one message to the pair)", i, p, got)
			return
		}
		code = got[0].code
		w.k.Count("codes_checked", 1)
		if len(code) != w.cf.codeLen {
			w.k.Logf("send p%d -> accepted code=%q", i, code)
			w.fail("code-length", "generated code %q has length %d, CodeLen=%d", code, len(code), w.cf.codeLen)
			return
		}
		if !allDigits(code) {
			w.k.Logf("send p%d -> accepted code=%q", i, code)
			w.fail("code-charset", "generated code %q contains a character outside %q", code, digits)
			return
		}
	}
	w.k.Logf("send p%d -> accepted code=%q hash=%q   (model: accepted-in-window=%d -> %d; attempts reset)", i, code, hash, window, window+1)
	w.k.Count("send_accepted", 1)
	w.accepted++
	if exp == either {
		w.k.Count("send_at_limit_either", 1)
		w.k.Count("send_at_limit_accepted", 1)
	}
	if !w.cf.refreshNever && s.window > w.cf.maxCount {
		w.k.Count("send_window_refresh_beyond_count", 1)
	}
	if s.sent {
		w.k.Count("resend_accepted", 1)
		s.prevCode, s.prevHash, s.hasPrev = s.code, s.hash, true
		s.overPrev = s.attempts >= w.cf.maxVerify
	}
	s.sent, s.ever = true, true
	s.code, s.hash = code, hash
	s.attempts, s.wrongs, s.successes = 0, 0, 0
	s.window++
	s.refusedSince = false
}

// verify performs VerifySMSCode on pair i with the given arguments and judges it.
// cdesc / hdesc say how the arguments were derived (symbolic program text).
func (w *world) verify(i int, code, hash, cdesc, hdesc string) {
	if w.dead {
		return
	}
	p, s := w.pairs[i], &w.st[i]
	err := w.lg.VerifySMSCode(p.area, p.phone, code, hash)
	w.calls++
	if w.accepted > 0 {
		w.judgedAfterSend++
	}
	// do the arguments belong to another pair's live code?
	foreign, colliding := -1, false
	for j := range w.st {
		if j != i && w.st[j].sent && w.st[j].code == code && w.st[j].hash == hash {
			foreign = j
			q := w.pairs[j]
			colliding = q.area+q.phone == p.area+p.phone || q.phone == p.phone
		}
	}
	rc, rh := s.sent && code == s.code, s.sent && hash == s.hash
	stale := s.sent && s.hasPrev && ((hash == s.prevHash && hash != s.hash) || (code == s.prevCode && code != s.code))
	w.prog = append(w.prog, fmt.Sprintf("verify p%d code=%s[%v] hash=%s[%v] -> %s", i, cdesc, rc, hdesc, rh, errName(err)))
	if s.sent {
		w.k.Logf("verify p%d code=%s:%q hash=%s:%q -> %s   (model: code-right=%v hash-right=%v attempt %d, MaxVerifyCount=%d)",
			i, cdesc, code, hdesc, hash, errName(err), rc, rh, s.attempts+1, w.cf.maxVerify)
	} else {
		w.k.Logf("verify p%d code=%s:%q hash=%s:%q -> %s   (model: no code was sent to the pair)", i, cdesc, code, hdesc, hash, errName(err))
	}
	w.k.Count("err_"+errName(err), 1)
	if !s.sent {
		if err == nil {
			if foreign >= 0 {
				w.fail("other-phone-accepted", "verify of p%d=%s, to which no code was sent, succeeded with the code and hash sent to p%d=%s", i, p, foreign, w.pairs[foreign])
			} else {
				w.fail("no-code-accepted", "verify of p%d=%s succeeded although no code was ever sent to the pair", i, p)
			}
			return
		}
		w.k.Count("verify_no_code_rejected", 1)
		if foreign >= 0 {
			w.k.Count("verify_other_pair_creds_rejected", 1)
			if colliding {
				w.k.Count("verify_colliding_pair_rejected", 1)
			}
		}
		return
	}
	s.attempts++
	switch {
	case s.attempts > w.cf.maxVerify:
		if err == nil {
			w.fail("over-attempts-accepted", "attempt %d against the code sent to p%d=%s succeeded, MaxVerifyCount=%d (code-right=%v hash-right=%v); %s",
				s.attempts, i, p, w.cf.maxVerify, rc, rh, w.cf)
			return
		}
		if rc && rh {
			w.k.Count("verify_over_limit_right_rejected", 1)
		} else {
			w.k.Count("verify_over_limit_wrong_rejected", 1)
		}
	case rc && rh && w.cf.ttlNever:
		if err != nil {
			cls := "right-rejected"
			w.fail(cls, "verify of p%d=%s with the sent code %q and the returned hash failed: %v (attempt %d of MaxVerifyCount=%d, TTL=1000h); %s",
				i, p, code, err, s.attempts, w.cf.maxVerify, w.cf)
			return
		}
		w.k.Count("verify_right_accepted", 1)
		if s.attempts == w.cf.maxVerify {
			w.k.Count("verify_right_accepted_at_limit", 1)
		}
		if s.wrongs > 0 {
			w.k.Count("verify_right_accepted_after_wrong", 1)
		}
		if s.successes > 0 {
			w.k.Count("verify_repeat_right_accepted", 1)
		}
		if s.hasPrev && s.overPrev {
			w.k.Count("verify_right_accepted_after_resend", 1)
		}
		if s.refusedSince {
			w.k.Count("verify_right_after_refused_send", 1)
		}
		if w.cf.mock && len(p.phone) < w.cf.codeLen {
			w.k.Count("mock_padded_code_accepted", 1)
		}
		s.successes++
	case rc && rh:
		if err == nil {
			w.fail("expired-accepted", "verify of p%d=%s with the right code and hash succeeded although TTL=-1s (every code is past its lifetime); %s", i, p, w.cf)
			return
		}
		w.k.Count("verify_expired_rejected", 1)
		s.wrongs++
	default:
		if err == nil {
			switch {
			case foreign >= 0:
				w.fail("other-phone-accepted", "verify of p%d=%s succeeded with the code %q and hash sent to the other pair p%d=%s (own code %q)", i, p, code, foreign, w.pairs[foreign], s.code)
			case !rc:
				w.fail("wrong-code-accepted", "verify of p%d=%s succeeded with code %q (%s), the sent code is %q", i, p, code, cdesc, s.code)
			default:
				w.fail("wrong-hash-accepted", "verify of p%d=%s succeeded with hash %q (%s), the returned hash is %q", i, p, hash, hdesc, s.hash)
			}
			return
		}
		if !rc {
			w.k.Count("verify_wrong_code_rejected", 1)
		}
		if !rh {
			w.k.Count("verify_wrong_hash_rejected", 1)
		}
		if foreign >= 0 {
			w.k.Count("verify_other_pair_creds_rejected", 1)
			if colliding {
				w.k.Count("verify_colliding_pair_rejected", 1)
			}
		}
		if stale {
			w.k.Count("verify_stale_creds_rejected", 1)
		}
		s.wrongs++
	}
}

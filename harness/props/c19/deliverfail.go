package c19

import (
	"errors"
	"fmt"
	"strings"

	"verifh/engine"

	"github.com/pinealctx/neptune/vcode"
)

// flakySMS captures the message and fails the delivery on demand.
type flakySMS struct {
	msgs []msg
	fail bool
}

var errDelivery = errors.New("sms gateway: delivery failed")

func (f *flakySMS) SendCode(area, phone, code string) error {
	f.msgs = append(f.msgs, msg{strings.Clone(area), strings.Clone(phone), strings.Clone(code)})
	if f.fail {
		return errDelivery
	}
	return nil
}

// deliveryFailCase: the attempt bound per *sent* code must also hold when re-sends fail in
// the SMS gateway. Only that clause is judged: a verification with the delivered code and
// its hash must not succeed once more than MaxVerifyCount attempts were made against that
// code, whatever failed deliveries happened in between (what a failed delivery does to the
// stored code is not specified, so a rejection is always accepted).
func deliveryFailCase(k *engine.Case) {
	r := k.R
	maxVerify := r.Intn(4)
	codeLen := 1 + r.Intn(6)
	cfg := conf{mock: false, codeLen: codeLen, maxVerify: maxVerify, maxCount: 2 + r.Intn(3), ttlNever: true, ivNever: true, refreshNever: false}
	sms := &flakySMS{}
	lg := vcode.NewSimpleLogic(cfg.config(8), sms, vcode.NewSimpleCache(8))
	area, phone := "86", fmt.Sprintf("139%08d", r.Intn(100000000))
	k.Logf("config: %s; pair (%s,%s)", cfg, area, phone)
	hash, err := lg.SendSMSCode(area, phone)
	if err != nil || len(sms.msgs) != 1 {
		k.Logf("first send -> (%q, %v), %d messages", hash, err, len(sms.msgs))
		k.Inconclusive("first send was not delivered")
		return
	}
	code := sms.msgs[0].code
	k.Logf("send -> delivered code=%q hash=%q", code, hash)
	attempts, failedSends := 0, 0
	steps := 4 + r.Intn(12)
	for i := 0; i < steps; i++ {
		switch c := r.Intn(10); {
		case c < 4:
			wrong := code + "x"
			e := lg.VerifySMSCode(area, phone, wrong, hash)
			attempts++
			k.Logf("verify wrong code -> %s (attempt %d against the delivered code)", errName(e), attempts)
			if e == nil {
				report(k, "wrong-code-accepted", "a wrong code %q was accepted", wrong)
				return
			}
		case c < 7:
			sms.fail = true
			h2, e := lg.SendSMSCode(area, phone)
			sms.fail = false
			failedSends++
			k.Logf("re-send with a failing gateway -> (%q, %v)", h2, e)
			k.Count("failed_deliveries", 1)
		default:
			e := lg.VerifySMSCode(area, phone, code, hash)
			attempts++
			k.Logf("verify delivered code+hash -> %s (attempt %d, MaxVerifyCount=%d, failed re-sends so far %d)", errName(e), attempts, maxVerify, failedSends)
			if e == nil && attempts > maxVerify && failedSends > 0 {
				k.Count("judged_over_limit_after_failed_delivery", 1)
				report(k, "over-attempts-accepted", "the delivered code %q was accepted at attempt %d although MaxVerifyCount=%d: %d re-send(s) that failed in the gateway reset the attempt counter of the code the user holds", code, attempts, maxVerify, failedSends)
				return
			}
			if attempts > maxVerify && failedSends > 0 {
				k.Count("judged_over_limit_after_failed_delivery", 1)
			}
		}
	}
	if failedSends > 0 && attempts > maxVerify {
		k.Nontrivial()
	}
}

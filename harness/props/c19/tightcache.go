package c19

import (
	"fmt"

	"verifh/engine"

	"github.com/pinealctx/neptune/vcode"
)

// tightCacheCase: more pairs than the cache holds. The property promises that the latest code
// of a pair verifies whatever happens to other phones; a bounded cache cannot keep that promise
// for ever, so only this much of it is demanded here (weaker than the statement, never
// stronger): the latest code+hash of pair p must verify as long as FEWER than CacheSize distinct
// other pairs were used (sent to or verified) since that send. With an exact-recency cache of
// CacheSize entries p's entry cannot have been dropped before that many others were used; when
// CacheSize or more others were used either outcome is accepted. Never-expiring codes,
// never-refusing sends, an attempt limit that is not reached.
func tightCacheCase(k *engine.Case) {
	r := k.R
	n := 1 + r.Intn(6)
	cf := conf{mock: r.Intn(2) == 0, codeLen: 4 + r.Intn(4), maxVerify: 1000, maxCount: 1000,
		ttlNever: true, ivNever: true, refreshNever: false, neverKind: r.Intn(5)}
	sms := &fakeSMS{}
	cfg := cf.config(int64(n))
	var lg vcode.VCLogic
	own := r.Intn(2) == 0
	if own {
		lg = vcode.NewSimpleLogic(cfg, sms, nil)
	} else {
		lg = vcode.NewSimpleLogic(cfg, sms, vcode.NewSimpleCache(int64(n)))
	}
	np := n + 1 + r.Intn(3)
	pairs := make([]pair, np)
	for i := range pairs {
		pairs[i] = pair{"86", fmt.Sprintf("13%d%08d", i, r.Intn(100000000))}
	}
	k.Logf("config: %s CacheSize=%d (module's own cache: %v); %d pairs", cf, n, own, np)
	type st struct {
		sent       bool
		code, hash string
		others     map[int]bool // distinct other pairs used since the latest send to this pair
		verifies   int
	}
	ps := make([]st, np)
	touch := func(i int) {
		for j := range ps {
			if j != i && ps[j].sent {
				ps[j].others[i] = true
			}
		}
	}
	steps := 6 + r.Intn(40)
	judged := 0
	for s := 0; s < steps; s++ {
		i := r.Intn(np)
		// bias: re-send to the pair that was sent to longest ago, then one new pair, then verify
		if r.Intn(3) == 0 {
			i = s % np
		}
		p := pairs[i]
		if !ps[i].sent || r.Intn(2) == 0 {
			before := len(sms.msgs)
			h, err := lg.SendSMSCode(p.area, p.phone)
			if err != nil {
				k.Logf("send %s -> %s", p, errName(err))
				report(k, "send-refused", "a send to %s was refused (%s) although sends are never too close and the window always refreshes", p, errName(err))
				return
			}
			code := ""
			if cf.mock {
				code = mockCode(p.phone, cf.codeLen)
			} else if len(sms.msgs) == before+1 {
				code = sms.msgs[before].code
			} else {
				k.Inconclusive("the sender did not deliver exactly one message")
				return
			}
			resend := ps[i].sent
			ps[i] = st{sent: true, code: code, hash: h, others: map[int]bool{}}
			touch(i)
			k.Logf("send %s (re-send: %v) -> code=%q hash=%q", p, resend, code, h)
			k.Count("tight_sends", 1)
			continue
		}
		err := lg.VerifySMSCode(p.area, p.phone, ps[i].code, ps[i].hash)
		ps[i].verifies++
		k.Logf("verify %s with its latest code+hash -> %s (%d distinct other pairs used since that send, CacheSize=%d)", p, errName(err), len(ps[i].others), n)
		if len(ps[i].others) < n {
			judged++
			k.Count("tight_verify_judged", 1)
			if err != nil {
				report(k, "live-code-dropped", "the latest code %q of %s was rejected (%s) although only %d distinct other pairs were used since it was sent and the cache holds %d entries", ps[i].code, p, errName(err), len(ps[i].others), n)
				return
			}
		} else {
			k.Count("tight_verify_beyond_cache", 1)
		}
		touch(i)
	}
	if judged > 0 {
		k.Nontrivial()
	}
}

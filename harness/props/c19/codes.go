package c19

import (
	"fmt"
	"strings"

	"verifh/engine"

	"github.com/pinealctx/neptune/idgen/random"
	"github.com/pinealctx/neptune/vcode"
)

// drawsPerChar: characters drawn per alphabet character before "never occurs" is
// concluded: n*(1-1/n)^(1200n) <= n*exp(-1200) < 1e-500 for every n <= 94.
const drawsPerChar = 1200

// codesCase: codes generated on the real-sender path: configured length, digits only,
// every digit occurs over >= 12000 generated digits (and >= 2000 codes); a sample of
// the codes is verified.
func codesCase(k *engine.Case) {
	r := k.R
	L := 1 + r.Intn(8)
	cf := conf{mock: false, codeLen: L, maxVerify: 1 + r.Intn(3), maxCount: r.Intn(4), ttlNever: true, ivNever: true, refreshNever: false}
	pairs := genPairs(r, L, 4+r.Intn(5), false)
	sms := &fakeSMS{}
	size := int64(len(pairs))
	lg := vcode.NewSimpleLogic(cf.config(size), sms, vcode.NewSimpleCache(size))
	k.Logf("config: %s CacheSize=%d; %d pairs", cf, size, len(pairs))
	k.Distinct(engine.HashStr(fmt.Sprintf("codes|%s|%v", cf, pairs)))
	need := (drawsPerChar*len(digits) + L - 1) / L
	if need < 2000 {
		need = 2000
	}
	var seen [256]int64
	n := 0
	for ; n < need; n++ {
		p := pairs[r.Intn(len(pairs))]
		before := len(sms.msgs)
		hash, err := lg.SendSMSCode(p.area, p.phone)
		if err != nil {
			if cf.maxCount >= 1 {
				k.Logf("send #%d to %s -> %v", n+1, p, err)
				report(k, "send-refused-within-limits", "send #%d to %s refused (%v) although the window always refreshes and MinInterval=0; %s", n+1, p, err, cf)
				return
			}
			// MaxCount=0: the statement allows refusing every send; nothing to observe
			k.Count("codes_case_all_refused", 1)
			k.Logf("send #%d to %s -> %v (MaxCount=0: allowed)", n+1, p, err)
			return
		}
		got := sms.msgs[before:]
		if len(got) != 1 || got[0].area != p.area || got[0].phone != p.phone {
			report(k, "sms-misdelivery", "accepted send to %s called the SMS sender with %v", p, got)
			return
		}
		code := got[0].code
		sms.msgs = sms.msgs[:0]
		if n < 8 {
			k.Logf("send #%d to %s -> code=%q", n+1, p, code)
		}
		if len(code) != L {
			k.Logf("send #%d to %s -> code=%q", n+1, p, code)
			report(k, "code-length", "generated code %q has length %d, CodeLen=%d", code, len(code), L)
			return
		}
		if !allDigits(code) {
			k.Logf("send #%d to %s -> code=%q", n+1, p, code)
			report(k, "code-charset", "generated code %q contains a character outside %q", code, digits)
			return
		}
		for i := 0; i < len(code); i++ {
			seen[code[i]]++
		}
		if n%64 == 0 {
			if err := lg.VerifySMSCode(p.area, p.phone, code, hash); err != nil {
				k.Logf("verify %s code=%q hash=%q -> %v", p, code, hash, err)
				report(k, "right-rejected", "verify of %s with the sent code %q and the returned hash failed: %v (first attempt, TTL=1000h); %s", p, code, err, cf)
				return
			}
			k.Count("verify_right_accepted", 1)
		}
	}
	k.Evals(int64(n))
	k.Nontrivial()
	k.Count("codes_checked", int64(n))
	k.Count(fmt.Sprintf("codes_case_len_%d", L), 1)
	var sb strings.Builder
	missing := ""
	for i := 0; i < len(digits); i++ {
		fmt.Fprintf(&sb, " '%c':%d", digits[i], seen[digits[i]])
		if seen[digits[i]] == 0 {
			missing += string(digits[i])
		}
	}
	k.Logf("%d codes of length %d generated; occurrences per digit:%s", n, L, sb.String())
	if missing != "" {
		report(k, "alphabet-char-never-occurs", "over %d generated codes of length %d (%d digits) the character(s) %q of the alphabet %q never occurred; occurrences:%s",
			n, L, n*L, missing, digits, sb.String())
		return
	}
	k.Count("codes_alphabet_complete", 1)
}

// nonceCase: the nonce generator behind the codes, over generated alphabets: length,
// membership, and every alphabet character occurs over 1200*len(alphabet) draws.
func nonceCase(k *engine.Case) {
	r := k.R
	n := pick(r, 1, 1, 2, 2, 3, 10, 16, 26, 36, 62, 64, 1+r.Intn(94), 1+r.Intn(94))
	perm := r.Perm(94)
	ab := make([]byte, n)
	for i := range ab {
		ab[i] = byte(33 + perm[i])
	}
	alphabet := string(ab)
	if r.Intn(12) == 0 {
		alphabet = digits // the alphabet vcode configures
	}
	if r.Intn(8) == 0 { // repeated characters are still one alphabet
		alphabet += alphabet[:1+r.Intn(len(alphabet))]
	}
	sec := r.Intn(2) == 0
	name, gen := "GenNonceStr", random.GenNonceStr
	if sec {
		name, gen = "SecGenNonceStr", random.SecGenNonceStr
	}
	var in [256]bool
	distinctChars := 0
	for i := 0; i < len(alphabet); i++ {
		if !in[alphabet[i]] {
			in[alphabet[i]] = true
			distinctChars++
		}
	}
	k.Logf("%s alphabet=%q (%d characters, %d distinct)", name, alphabet, len(alphabet), distinctChars)
	if distinctChars == 1 {
		k.Count("nonce_one_char_alphabet", 1)
	}
	lens := []int{0, 1, 2, len(alphabet), 1 + r.Intn(40), drawsPerChar * len(alphabet)}
	for _, l := range lens {
		long := l == drawsPerChar*len(alphabet)
		if !long {
			k.Logf("%s(alphabet, %d)", name, l)
		} else {
			k.Logf("%s(alphabet, %d)  [coverage draw]", name, l)
		}
		s := gen(alphabet, l)
		k.Evals(1)
		k.Count("nonce_calls", 1)
		if l > 0 {
			k.Nontrivial()
			k.Distinct(engine.HashStr(fmt.Sprintf("nonce|%s|%s|%d", name, alphabet, l)))
		}
		if !long {
			k.Logf("  -> %q", s)
		}
		if len(s) != l {
			report(k, "nonce-length", "%s(%q, %d) returned %d characters", name, alphabet, l, len(s))
			return
		}
		var seen [256]int64
		for i := 0; i < len(s); i++ {
			if !in[s[i]] {
				report(k, "nonce-charset", "%s(%q, %d) returned the character %q (position %d), not in the alphabet", name, alphabet, l, s[i], i)
				return
			}
			seen[s[i]]++
		}
		if long {
			missing := ""
			for c := 0; c < 256; c++ {
				if in[c] && seen[c] == 0 {
					missing += string(rune(c))
				}
			}
			if missing != "" {
				k.Logf("  -> %d characters, never drawn: %q", len(s), missing)
				report(k, "alphabet-char-never-occurs", "%s(%q, %d): the alphabet character(s) %q never occurred in %d drawn characters", name, alphabet, l, missing, l)
				return
			}
			k.Logf("  -> %d characters, all %d alphabet characters occur", len(s), distinctChars)
			k.Count("nonce_alphabet_complete", 1)
			k.Count("nonce_chars_drawn", int64(l))
		}
	}
}

package c18

import (
	"context"
	"database/sql"
	"database/sql/driver"
	"errors"
	"fmt"
	"strings"
	"sync"

	"github.com/go-sql-driver/mysql"
	"gorm.io/gorm"
)

// fakeSQL is an in-process database/sql driver. It sits underneath database/sql and
// gorm's MySQL dialector, records every Begin / Exec / Commit / Rollback that reaches
// the "server" in one ordered event log, and injects the faults named by the plan.
// Nothing in it depends on time, goroutine scheduling or map iteration order.

const driverName = "c18fakesql"

// failMarker inside a statement text makes the fake server refuse that statement.
const failMarker = "/*c18:fail*/"

type evType uint8

const (
	evBegin evType = iota
	evExec
	evCommit
	evRollback
	evStep // written by the harness step closure itself (not by the driver): "leaf i entered"
)

type event struct {
	typ  evType
	tx   int  // transaction id the event belongs to (0 = outside any transaction)
	ok   bool // outcome reported to database/sql
	leaf int  // evStep / evExec: leaf index (-1: a statement the harness did not issue)
}

func (e event) String() string {
	r := "ok"
	if !e.ok {
		r = "FAIL"
	}
	switch e.typ {
	case evBegin:
		if !e.ok {
			return "begin:FAIL"
		}
		return fmt.Sprintf("begin#%d:ok", e.tx)
	case evExec:
		in := fmt.Sprintf("tx%d", e.tx)
		if e.tx == 0 {
			in = "NO-TX"
		}
		return fmt.Sprintf("exec(leaf%d,%s):%s", e.leaf, in, r)
	case evCommit:
		return fmt.Sprintf("commit#%d:%s", e.tx, r)
	case evRollback:
		return fmt.Sprintf("rollback#%d:%s", e.tx, r)
	case evStep:
		return fmt.Sprintf("step%d", e.leaf)
	}
	return "?"
}

func eventsString(ev []event) string {
	var sb strings.Builder
	sb.WriteByte('[')
	for i, e := range ev {
		if i > 0 {
			sb.WriteByte(' ')
		}
		sb.WriteString(e.String())
	}
	sb.WriteByte(']')
	return sb.String()
}

// plan = which of the three transaction-control operations the server refuses.
type plan struct {
	beginFail, commitFail, rollbackFail bool
	// beginOnce > 0 (only with beginFail): the refusal is a connection-level error of the kind
	// a stale pooled connection produces, and only the first begin attempt after reset is
	// refused - a second attempt, if anybody made one, would be accepted
	beginOnce int
}

// beginOnceErr: the error of a one-shot begin refusal. database/sql itself retries a begin
// that fails with driver.ErrBadConn, so below database/sql only the other values are used.
func beginOnceErr(i int, belowDatabaseSQL bool) error {
	if belowDatabaseSQL {
		return []error{mysql.ErrInvalidConn, errWrappedInvalidConn}[i%2]
	}
	return []error{mysql.ErrInvalidConn, driver.ErrBadConn, errWrappedInvalidConn, errWrappedBadConn}[i%4]
}

var (
	errWrappedInvalidConn = fmt.Errorf("c18-fakesql: begin: %w", mysql.ErrInvalidConn)
	errWrappedBadConn     = fmt.Errorf("c18-fakesql: begin: %w", driver.ErrBadConn)
)

func (p plan) String() string {
	f := func(b bool) string {
		if b {
			return "FAIL"
		}
		return "ok"
	}
	b := f(p.beginFail)
	if p.beginFail && p.beginOnce > 0 {
		b = fmt.Sprintf("FAIL-ONCE(%q)", beginOnceErr(p.beginOnce, true).Error())
	}
	return fmt.Sprintf("begin=%s commit=%s rollback=%s", b, f(p.commitFail), f(p.rollbackFail))
}

var (
	errBegin    = errors.New("c18-fakesql: begin refused")
	errCommit   = errors.New("c18-fakesql: commit refused")
	errRollback = errors.New("c18-fakesql: rollback refused")
	errExec     = errors.New("c18-fakesql: statement refused")
)

type server struct {
	mu      sync.Mutex
	pl      plan
	events  []event
	nextTx  int
	openTx  int // transactions begun and not yet committed / rolled back
	conns   int // connections opened so far
	foreign int // statements not issued by the harness steps
	refused int // begin attempts refused since reset
}

func (s *server) reset(pl plan) {
	s.mu.Lock()
	s.pl = pl
	s.events = s.events[:0]
	s.nextTx = 0
	s.foreign = 0
	s.refused = 0
	s.mu.Unlock()
}

func (s *server) add(e event) {
	s.mu.Lock()
	s.events = append(s.events, e)
	s.mu.Unlock()
}

func (s *server) snapshot() (ev []event, open int, foreign int) {
	s.mu.Lock()
	defer s.mu.Unlock()
	return append([]event(nil), s.events...), s.openTx, s.foreign
}

// ---------------------------------------------------------------- driver

type fakeDriver struct {
	mu      sync.Mutex
	servers map[string]*server
	seq     int
}

var theDriver = &fakeDriver{servers: map[string]*server{}}

func init() { sql.Register(driverName, theDriver) }

// newServer registers a fresh server and returns it with its data source name.
func (d *fakeDriver) newServer() (*server, string) {
	d.mu.Lock()
	defer d.mu.Unlock()
	d.seq++
	dsn := fmt.Sprintf("c18-server-%d", d.seq)
	s := &server{}
	d.servers[dsn] = s
	return s, dsn
}

func (d *fakeDriver) drop(dsn string) {
	d.mu.Lock()
	delete(d.servers, dsn)
	d.mu.Unlock()
}

func (d *fakeDriver) Open(dsn string) (driver.Conn, error) {
	d.mu.Lock()
	s := d.servers[dsn]
	d.mu.Unlock()
	if s == nil {
		return nil, fmt.Errorf("c18-fakesql: unknown server %q", dsn)
	}
	s.mu.Lock()
	s.conns++
	s.mu.Unlock()
	return &fconn{srv: s}, nil
}

type fconn struct {
	srv *server
	cur int // id of the transaction open on this connection, 0 = none
}

var (
	_ driver.Conn          = (*fconn)(nil)
	_ driver.ConnBeginTx   = (*fconn)(nil)
	_ driver.ExecerContext = (*fconn)(nil)
)

func (c *fconn) Prepare(q string) (driver.Stmt, error) { return &fstmt{c: c, q: q}, nil }
func (c *fconn) Close() error                          { return nil }
func (c *fconn) Begin() (driver.Tx, error) {
	return c.BeginTx(context.Background(), driver.TxOptions{})
}

func (c *fconn) BeginTx(_ context.Context, _ driver.TxOptions) (driver.Tx, error) {
	s := c.srv
	s.mu.Lock()
	defer s.mu.Unlock()
	if s.pl.beginFail && (s.pl.beginOnce == 0 || s.refused == 0) {
		s.refused++
		s.events = append(s.events, event{typ: evBegin, ok: false})
		if s.pl.beginOnce > 0 {
			return nil, beginOnceErr(s.pl.beginOnce, true)
		}
		return nil, errBegin
	}
	s.nextTx++
	s.openTx++
	c.cur = s.nextTx
	s.events = append(s.events, event{typ: evBegin, tx: c.cur, ok: true})
	return &ftx{c: c, id: c.cur}, nil
}

func (c *fconn) exec(q string, args []driver.NamedValue) (driver.Result, error) {
	s := c.srv
	leaf := -1
	if strings.Contains(q, "c18_t") && len(args) >= 1 {
		if v, ok := args[0].Value.(int64); ok {
			leaf = int(v)
		}
	}
	fail := strings.Contains(q, failMarker)
	s.mu.Lock()
	if leaf < 0 {
		s.foreign++
	}
	s.events = append(s.events, event{typ: evExec, tx: c.cur, ok: !fail, leaf: leaf})
	s.mu.Unlock()
	if fail {
		return nil, errExec
	}
	return driver.RowsAffected(1), nil
}

func (c *fconn) ExecContext(_ context.Context, q string, args []driver.NamedValue) (driver.Result, error) {
	return c.exec(q, args)
}

type fstmt struct {
	c *fconn
	q string
}

func (st *fstmt) Close() error  { return nil }
func (st *fstmt) NumInput() int { return -1 }
func (st *fstmt) Exec(args []driver.Value) (driver.Result, error) {
	nv := make([]driver.NamedValue, len(args))
	for i, a := range args {
		nv[i] = driver.NamedValue{Ordinal: i + 1, Value: a}
	}
	return st.c.exec(st.q, nv)
}
func (st *fstmt) Query(_ []driver.Value) (driver.Rows, error) {
	return nil, errors.New("c18-fakesql: queries are not supported")
}

type ftx struct {
	c    *fconn
	id   int
	done bool
}

func (t *ftx) finish(typ evType, fail bool, ferr error) error {
	s := t.c.srv
	s.mu.Lock()
	defer s.mu.Unlock()
	// every attempt that reaches the server is logged, also a second one on the same transaction
	s.events = append(s.events, event{typ: typ, tx: t.id, ok: !fail})
	if !t.done {
		t.done = true
		s.openTx--
		if t.c.cur == t.id {
			t.c.cur = 0
		}
	}
	if fail {
		return ferr
	}
	return nil
}

func (t *ftx) Commit() error   { return t.finish(evCommit, t.c.srv.planCommitFail(), errCommit) }
func (t *ftx) Rollback() error { return t.finish(evRollback, t.c.srv.planRollbackFail(), errRollback) }

func (s *server) planCommitFail() bool {
	s.mu.Lock()
	defer s.mu.Unlock()
	return s.pl.commitFail
}

func (s *server) planRollbackFail() bool {
	s.mu.Lock()
	defer s.mu.Unlock()
	return s.pl.rollbackFail
}

// ---------------------------------------------------------------- gorm-level pool
//
// gpool is a gorm.ConnPool that talks to the fake server directly, without database/sql in
// between: every Commit / Rollback call gorm makes reaches the server log (database/sql answers
// a second finish attempt with ErrTxDone itself and hides it from the driver).

type gpool struct{ srv *server }

type gtx struct {
	srv  *server
	id   int
	done bool
}

func leafOfArgs(q string, args []interface{}) int {
	if strings.Contains(q, "c18_t") && len(args) >= 1 {
		switch v := args[0].(type) {
		case int:
			return v
		case int64:
			return int(v)
		}
	}
	return -1
}

func (s *server) execDirect(tx int, q string, args []interface{}) (sql.Result, error) {
	leaf := leafOfArgs(q, args)
	fail := strings.Contains(q, failMarker)
	s.mu.Lock()
	if leaf < 0 {
		s.foreign++
	}
	s.events = append(s.events, event{typ: evExec, tx: tx, ok: !fail, leaf: leaf})
	s.mu.Unlock()
	if fail {
		return nil, errExec
	}
	return driver.RowsAffected(1), nil
}

var errNoQueries = errors.New("c18-fakesql: queries and prepared statements are not supported by the gorm-level pool")

func (p *gpool) PrepareContext(context.Context, string) (*sql.Stmt, error) { return nil, errNoQueries }
func (p *gpool) ExecContext(_ context.Context, q string, args ...interface{}) (sql.Result, error) {
	return p.srv.execDirect(0, q, args)
}
func (p *gpool) QueryContext(context.Context, string, ...interface{}) (*sql.Rows, error) {
	return nil, errNoQueries
}
func (p *gpool) QueryRowContext(context.Context, string, ...interface{}) *sql.Row { return nil }

// BeginTx makes gpool a gorm.ConnPoolBeginner.
func (p *gpool) BeginTx(_ context.Context, _ *sql.TxOptions) (gorm.ConnPool, error) {
	s := p.srv
	s.mu.Lock()
	defer s.mu.Unlock()
	if s.pl.beginFail && (s.pl.beginOnce == 0 || s.refused == 0) {
		s.refused++
		s.events = append(s.events, event{typ: evBegin, ok: false})
		if s.pl.beginOnce > 0 {
			return nil, beginOnceErr(s.pl.beginOnce, false)
		}
		return nil, errBegin
	}
	s.nextTx++
	s.openTx++
	s.events = append(s.events, event{typ: evBegin, tx: s.nextTx, ok: true})
	return &gtx{srv: s, id: s.nextTx}, nil
}

func (t *gtx) PrepareContext(context.Context, string) (*sql.Stmt, error) { return nil, errNoQueries }
func (t *gtx) ExecContext(_ context.Context, q string, args ...interface{}) (sql.Result, error) {
	return t.srv.execDirect(t.id, q, args)
}
func (t *gtx) QueryContext(context.Context, string, ...interface{}) (*sql.Rows, error) {
	return nil, errNoQueries
}
func (t *gtx) QueryRowContext(context.Context, string, ...interface{}) *sql.Row { return nil }

func (t *gtx) finish(typ evType, fail bool, ferr error) error {
	s := t.srv
	s.mu.Lock()
	defer s.mu.Unlock()
	s.events = append(s.events, event{typ: typ, tx: t.id, ok: !fail})
	if !t.done {
		t.done = true
		s.openTx--
	}
	if fail {
		return ferr
	}
	return nil
}

// Commit / Rollback make gtx a gorm.TxCommitter.
func (t *gtx) Commit() error   { return t.finish(evCommit, t.srv.planCommitFail(), errCommit) }
func (t *gtx) Rollback() error { return t.finish(evRollback, t.srv.planRollbackFail(), errRollback) }

var (
	_ gorm.ConnPool         = (*gpool)(nil)
	_ gorm.ConnPoolBeginner = (*gpool)(nil)
	_ gorm.TxCommitter      = (*gtx)(nil)
)

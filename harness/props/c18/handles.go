package c18

import (
	"context"
	"errors"
	"fmt"
	"time"

	"verifh/engine"

	"github.com/pinealctx/neptune/store/gormx"
	"gorm.io/gorm"
)

// Kind "handles": Transact on handles other than the plain one gorm.Open returns, and
// transactions that are finished behind Transact's back. These calls are outside the
// enumerated fault space, so they are judged only by the two clauses of the statement that
// need no model of the scenario:
//
//	nil-without-commit   "the caller gets nil only if the commit itself succeeded": a nil result
//	                     of a call with steps needs a COMMIT that the server accepted during that call
//	step-without-begin   "a failure to begin runs no step": no step runs in a call during which the
//	                     server accepted no BEGIN
//	panic-escaped        a panic reaches the caller
//
// Scenarios (chosen by the case seed, combined with a random begin/commit/rollback fault plan):
//
//	nested         a step calls Transact on the transactional handle it was given
//	begun-handle   Transact on a handle obtained from db.Begin()
//	ctx-cancel     handle = db.WithContext(ctx); the last step cancels ctx and (mostly) waits until
//	               database/sql has rolled the transaction back, then returns nil
//	ctx-dead       handle = db.WithContext(ctx) with ctx cancelled before the call
//	self-rollback  a step rolls the transaction back itself and returns nil
//	self-commit    a step commits the transaction itself and returns nil
type hcall struct {
	name     string
	steps    int // steps supplied
	ran      int // steps entered
	res      error
	panicked bool
	escaped  any
	events   []event
	wantErr  error // set when exactly one step fails, with this error, and no panic is involved
	// mustCommit: every step returned nil, nothing panicked and the plan refuses neither begin
	// nor commit: "committed if and only if every supplied step returned nil"
	mustCommit bool
}

func (c *hcall) judge() (fs []finding) {
	add := func(class, format string, a ...any) {
		fs = append(fs, finding{class, fmt.Sprintf(format, a...)})
	}
	if c.panicked {
		add("panic-escaped", "%s: Transact let a panic escape to the caller: %v", c.name, c.escaped)
		return
	}
	beginOK, commitOK := false, false
	for _, e := range c.events {
		if e.typ == evBegin && e.ok {
			beginOK = true
		}
		if e.typ == evCommit && e.ok {
			commitOK = true
		}
	}
	if c.steps > 0 && c.res == nil && !commitOK {
		add("nil-without-commit", "%s: the result is nil although the server accepted no commit during the call", c.name)
	}
	if c.wantErr != nil && (c.res == nil || !(errors.Is(c.res, c.wantErr) || mentions(c.res, c.wantErr.Error()))) {
		add("wrong-error", "%s: the only failing step returned %q but the result is %v", c.name, c.wantErr, c.res)
	}
	if c.mustCommit && !commitOK {
		add("rollback-despite-success", "%s: every supplied step returned nil and nothing was refused, but the server accepted no commit during the call (result %v)", c.name, c.res)
	}
	if !beginOK && c.ran > 0 {
		add("step-without-begin", "%s: the server accepted no begin during the call but %d step(s) ran", c.name, c.ran)
	}
	return
}

// observe runs fn (one Transact call) and returns what the server saw during it.
func observe(srv *server, name string, steps int, ran *int, fn func() error) *hcall {
	before, _, _ := srv.snapshot()
	ran0 := *ran
	c := &hcall{name: name, steps: steps}
	func() {
		returned := false
		defer func() {
			if !returned {
				c.panicked = true
				c.escaped = recover()
			}
		}()
		c.res = fn()
		returned = true
	}()
	after, _, _ := srv.snapshot()
	c.events = after[len(before):]
	c.ran = *ran - ran0
	return c
}

func waitRollback(srv *server, from int) bool {
	for i := 0; i < 4000; i++ {
		ev, _, _ := srv.snapshot()
		for _, e := range ev[from:] {
			if e.typ == evRollback {
				return true
			}
		}
		time.Sleep(500 * time.Microsecond)
	}
	return false
}

func handlesCase(k *engine.Case) {
	st := newState(k)
	defer st.done()
	r := k.R
	for it := 0; it < 12 && !st.aborted; it++ {
		e := st.e
		srv := e.srv
		pl := plan{beginFail: r.Intn(8) == 0, commitFail: r.Intn(4) == 0, rollbackFail: r.Intn(4) == 0}
		srv.reset(pl)
		ran := 0
		leafNo := 0
		okStep := func() gormx.GormProcFn {
			id := leafNo
			leafNo++
			return func(txn *gorm.DB) error {
				ran++
				srv.add(event{typ: evStep, leaf: id})
				return txn.Exec(stmtOK, id, 0).Error
			}
		}
		errStep := func() gormx.GormProcFn {
			id := leafNo
			leafNo++
			return func(txn *gorm.DB) error {
				ran++
				srv.add(event{typ: evStep, leaf: id})
				return fmt.Errorf("c18-handles-step%d-error", id)
			}
		}
		someSteps := func(min int) []gormx.GormProcFn {
			var fns []gormx.GormProcFn
			for i, n := 0, min+r.Intn(3); i < n; i++ {
				fns = append(fns, okStep())
			}
			return fns
		}
		var calls []*hcall
		scenario := []string{"nested", "nested", "begun-handle", "ctx-cancel", "ctx-cancel", "ctx-dead", "self-rollback", "self-commit", "ctx-cancel-fail", "ctx-cancel-fail", "dry-run", "step-adds-error"}[r.Intn(12)]
		desc := scenario
		switch scenario {
		case "nested":
			innerFails := r.Intn(4) == 0
			swallow := r.Intn(2) == 0
			innerSteps := someSteps(1)
			if innerFails {
				innerSteps = append(innerSteps, errStep())
			}
			var inner *hcall
			nest := func(txn *gorm.DB) error {
				ran++
				inner = observe(srv, "inner Transact(txn, ...) called from a step", len(innerSteps), &ran, func() error {
					return gormx.Transact(txn, innerSteps...)
				})
				ran -= inner.ran // the outer call's own count: inner steps are the inner call's
				if swallow {
					return nil
				}
				return inner.res
			}
			outerSteps := append(someSteps(0), nest)
			outerSteps = append(outerSteps, someSteps(0)...)
			outer := observe(srv, "outer Transact(db, ..., step calling Transact(txn, ...), ...)", len(outerSteps), &ran, func() error {
				return gormx.Transact(e.db, outerSteps...)
			})
			if inner != nil {
				calls = append(calls, inner)
				k.Count("handles.nested_inner_calls", 1)
				if inner.res != nil {
					k.Count("handles.nested_inner_refused", 1)
				}
			}
			calls = append(calls, outer)
			desc = fmt.Sprintf("nested (inner fails=%v, step swallows the inner result=%v)", innerFails, swallow)
		case "begun-handle":
			tx := e.db.Begin()
			steps := someSteps(1)
			calls = append(calls, observe(srv, "Transact(db.Begin(), ...)", len(steps), &ran, func() error {
				return gormx.Transact(tx, steps...)
			}))
			if tx.Error == nil {
				tx.Rollback()
			}
		case "ctx-cancel":
			ctx, cancel := context.WithCancel(context.Background())
			wait := r.Intn(4) > 0
			steps := someSteps(0)
			from := 0
			waited := false
			steps = append(steps, func(txn *gorm.DB) error {
				ran++
				ev, _, _ := srv.snapshot()
				from = len(ev)
				cancel()
				if wait {
					waited = waitRollback(srv, from)
				}
				return nil
			})
			calls = append(calls, observe(srv, "Transact(db.WithContext(ctx), ..., step that cancels ctx and returns nil)", len(steps), &ran, func() error {
				return gormx.Transact(e.db.WithContext(ctx), steps...)
			}))
			cancel()
			if waited {
				k.Count("handles.ctx_rollback_seen_before_commit", 1)
			}
			desc = fmt.Sprintf("ctx-cancel (step waits for the server-side rollback=%v, seen=%v)", wait, waited)
		case "ctx-cancel-fail":
			// the failing step is also the one that gives up the request context (a handler that
			// cancels and reports why): the caller is told the step's error, not the context's
			ctx, cancel := context.WithCancel(context.Background())
			wait := r.Intn(2) == 0
			steps := someSteps(0)
			stepErr := fmt.Errorf("c18-handles-step%d-gave-up", leafNo)
			steps = append(steps, func(txn *gorm.DB) error {
				ran++
				ev, _, _ := srv.snapshot()
				cancel()
				if wait {
					waitRollback(srv, len(ev))
				}
				return stepErr
			})
			if r.Intn(2) == 0 {
				steps = append(steps, okStep())
			}
			c := observe(srv, "Transact(db.WithContext(ctx), ..., step that cancels ctx and returns its own error)", len(steps), &ran, func() error {
				return gormx.Transact(e.db.WithContext(ctx), steps...)
			})
			if !pl.beginFail {
				c.wantErr = stepErr
			}
			calls = append(calls, c)
			cancel()
			desc = fmt.Sprintf("ctx-cancel-fail (step waits for the server-side rollback=%v)", wait)
		case "dry-run":
			// a dry-run session (statements are built, not sent): Transact still brackets the steps
			// with a transaction of its own
			steps := someSteps(1)
			fails := r.Intn(3) == 0
			if fails {
				steps = append(steps, errStep())
			}
			c := observe(srv, "Transact(db.Session(&gorm.Session{DryRun: true}), ...)", len(steps), &ran, func() error {
				return gormx.Transact(e.db.Session(&gorm.Session{DryRun: true}), steps...)
			})
			c.mustCommit = !fails && !pl.beginFail && !pl.commitFail
			calls = append(calls, c)
			desc = fmt.Sprintf("dry-run (a step fails=%v)", fails)
		case "step-adds-error":
			// a step records an error on the handle it was given (AddError) and still returns nil:
			// it returned nil, so it counts as a success
			steps := someSteps(0)
			steps = append(steps, func(txn *gorm.DB) error {
				ran++
				_ = txn.AddError(fmt.Errorf("c18-handles-recorded-not-returned"))
				return nil
			})
			// (it is the last step: gorm calls made on the handle afterwards would report the recorded
			// error, and a later step passing that on does fail)
			c := observe(srv, "Transact(db, ..., last step calls txn.AddError(e) and returns nil)", len(steps), &ran, func() error {
				return gormx.Transact(e.db, steps...)
			})
			c.mustCommit = !pl.beginFail && !pl.commitFail
			calls = append(calls, c)
		case "ctx-dead":
			ctx, cancel := context.WithCancel(context.Background())
			cancel()
			steps := someSteps(1)
			calls = append(calls, observe(srv, "Transact(db.WithContext(cancelled ctx), ...)", len(steps), &ran, func() error {
				return gormx.Transact(e.db.WithContext(ctx), steps...)
			}))
		case "self-rollback", "self-commit":
			steps := someSteps(0)
			commit := scenario == "self-commit"
			steps = append(steps, func(txn *gorm.DB) error {
				ran++
				if commit {
					txn.Commit()
				} else {
					txn.Rollback()
				}
				return nil
			})
			if r.Intn(2) == 0 {
				steps = append(steps, func(txn *gorm.DB) error { ran++; return nil })
			}
			calls = append(calls, observe(srv, "Transact(db, ..., step that finishes the transaction itself and returns nil)", len(steps), &ran, func() error {
				return gormx.Transact(e.db, steps...)
			}))
		}
		k.Evals(int64(len(calls)))
		k.Count("handles.scenario_"+scenario, 1)
		k.Nontrivial()
		sig := scenario + "|" + pl.String()
		for _, c := range calls {
			res := "nil"
			if c.panicked {
				res = fmt.Sprintf("PANIC %v", c.escaped)
			} else if c.res != nil {
				res = fmt.Sprintf("%q", c.res.Error())
				k.Count("handles.result_error", 1)
			} else {
				k.Count("handles.result_nil", 1)
			}
			sig += "|" + eventsString(c.events) + "=>" + res
			k.Logf("%s  %s  %s: steps=%d ran=%d events=%s result=%s", desc, pl, c.name, c.steps, c.ran, eventsString(c.events), res)
			for _, fd := range c.judge() {
				st.failed[fd.class]++
				if st.failed[fd.class] > 2 {
					k.Count("violations_not_listed", 1)
					continue
				}
				k.Logf("VIOLATED %s: %s", fd.class, fd.msg)
				k.Fail("handles:"+fd.class, "%s | scenario: %s | faults: %s | events during the call: %s | steps run: %d | result: %s", fd.msg, desc, pl, eventsString(c.events), c.ran, res)
			}
		}
		k.Distinct(engine.HashStr(sig))
		// every scenario gets its own database: an abandoned transaction keeps its connection
		st.fresh()
	}
}

// Package c18 checks gormx.Transact / gormx.Combine by complete enumeration of the
// stated fault space: step lists of length 0..4 (thorough: 0..6) with every step
// succeeding, returning an error, panicking with a string or panicking with an error,
// combined with begin / commit / rollback succeeding or failing; the same lists
// regrouped through Combine in every possible way; plus seed-sampled longer / nested /
// exec-failing programs and several transactions in a row on one *gorm.DB.
//
// The observation is the ordered event log of an in-process database/sql driver
// (fakesql.go) underneath database/sql and gorm's MySQL dialector, plus the error
// Transact returned.
package c18

import (
	"context"
	"database/sql"
	"database/sql/driver"
	"errors"
	"fmt"
	"io"
	"strings"

	"verifh/engine"

	gomysql "github.com/go-sql-driver/mysql"
	"github.com/pinealctx/neptune/store/gormx"
	"github.com/pinealctx/neptune/ulog"
	"go.uber.org/zap"
	"go.uber.org/zap/zapcore"
	"gorm.io/driver/mysql"
	"gorm.io/gorm"
	"gorm.io/gorm/logger"
)

// Prop is the C18 check.
var Prop = &engine.Prop{
	ID:         "C18",
	Level:      "fault_enumeration",
	Exhaustive: true,
	Rule: "kinds lenN / combineN are complete enumerations, identical in every run and independent of the seed: lenN = all 4^N step lists of length N " +
		"(each step: ok = one Exec and nil | returns an error | panic(string) | panic(error)) x begin{ok,fail} x commit{ok,fail} x rollback{ok,fail}; " +
		"combineN = the same lists regrouped into consecutive Combine(...) groups in all 2^(N-1) ways x {single steps passed raw | single steps wrapped in Combine and an empty Combine() put in front} x the 8 fault plans. " +
		"quick: N = 0..4 (len) and 1..4 (combine); thorough: N = 0..6 and 1..5. kinds prepstmt-* / gormpool-* repeat the blocks N <= 3 (thorough: 5 / 4) with gorm.Config{PrepareStmt: true} and on a gorm-level connection pool without database/sql. The seed only selects which combinations are written into the trace. " +
		"kinds mixed / sequence / handles are seed-sampled extras outside the enumerated space (up to 10 leaves, nested Combine, refused Exec statements, other panic values, several transactions on one *gorm.DB; Transact on transactional / context-carrying handles and transactions finished behind Transact's back). " +
		"evaluations = Transact calls judged; a combination is non-trivial when at least one injected fault actually fired (begin/commit/rollback/Exec refused, or a failing step ran); " +
		"distinct = distinct (program text, fault plan) pairs among the non-trivial ones",
	Assumptions: []string{
		"the event log of the in-process database/sql driver (fakesql.go, ~200 lines) is what a database server would have seen; database/sql and gorm v1.25.1 with the MySQL dialector (Conn:, SkipInitializeWithVersion) run unmodified between Transact and that driver",
		"\"finished exactly once\" is judged at the server: Commit/Rollback attempts that database/sql itself answers with ErrTxDone never reach the driver and are not counted there; the gormpool set-up (a gorm.ConnPool / ConnPoolBeginner / TxCommitter of the harness instead of database/sql) logs every finish attempt gorm makes",
		"a refused commit ends the transaction (the fake server forgets it), as MySQL does after a failed COMMIT on a lost connection",
		"panic(nil) and runtime.Goexit inside a step are not generated (panic(nil) depends on the main module's GODEBUG default); nil step functions and a db that already carries an error are misuse and not generated",
		"the module's default logger (ulog) is a production-style or a development-style zap logger writing nowhere, chosen per case (always development-style in the prepstmt set-up); failing steps also use MySQL driver errors (1213 deadlock, 1205 lock wait timeout, 1062, 1040, ErrInvalidConn) and runtime panics (nil map write, index out of range, nil dereference)",
		"kind handles (Transact on a handle that is already a transaction, on a handle whose context is or gets cancelled, steps that finish the transaction themselves) is outside the stated fault space: only 'nil result => the server accepted a commit during the call', 'no accepted begin => no step ran', 'no panic escapes', (scenario ctx-cancel-fail, where exactly one step fails) 'the result is that step's error' and (scenarios dry-run / step-adds-error, when every step returned nil and neither begin nor commit is refused) 'a commit was accepted' are judged there; a step that records an error on the handle with AddError and returns nil is the last step of its list (gorm calls made on the handle afterwards report the recorded error, so a later step would fail)",
		"a refused begin is either refused for good or (plans FAIL-ONCE) refused once with a connection-level error (mysql.ErrInvalidConn; driver.ErrBadConn only on the gorm-level pool, because database/sql retries that one itself) while a second attempt would be accepted: either way the begin Transact asked for failed, so no step may run",
		"begin/commit failure: the statement only promises a non-nil result; whether the result wraps the driver's error is counted (begin_error_identity, commit_error_identity), not judged",
	},
	ShardsQuick: 4, ShardsThorough: 16,
	Setup: func(c *engine.Ctx) {
		// Transact logs every recovered panic with a stack trace through ulog; keep the child logs small.
		ulog.SetDefaultLogger(&ulog.Logger{Logger: zap.NewNop()})
	},
	Kinds: []engine.Kind{
		{Name: "len0", Quick: 1, Thorough: 1, Fn: func(k *engine.Case) { enumCase(k, 0, false) }},
		{Name: "len1", Quick: 1, Thorough: 1, Fn: func(k *engine.Case) { enumCase(k, 1, false) }},
		{Name: "len2", Quick: 1, Thorough: 1, Fn: func(k *engine.Case) { enumCase(k, 2, false) }},
		{Name: "len3", Quick: 1, Thorough: 1, Fn: func(k *engine.Case) { enumCase(k, 3, false) }},
		{Name: "len4", Quick: 1, Thorough: 1, Fn: func(k *engine.Case) { enumCase(k, 4, false) }},
		{Name: "len5", Quick: 0, Thorough: 1, Fn: func(k *engine.Case) { enumCase(k, 5, false) }},
		{Name: "len6", Quick: 0, Thorough: 1, Fn: func(k *engine.Case) { enumCase(k, 6, false) }},
		{Name: "combine1", Quick: 1, Thorough: 1, Fn: func(k *engine.Case) { enumCase(k, 1, true) }},
		{Name: "combine2", Quick: 1, Thorough: 1, Fn: func(k *engine.Case) { enumCase(k, 2, true) }},
		{Name: "combine3", Quick: 1, Thorough: 1, Fn: func(k *engine.Case) { enumCase(k, 3, true) }},
		{Name: "combine4", Quick: 1, Thorough: 1, Fn: func(k *engine.Case) { enumCase(k, 4, true) }},
		{Name: "combine5", Quick: 0, Thorough: 1, Fn: func(k *engine.Case) { enumCase(k, 5, true) }},
		// the enumeration again with gorm's statement cache switched on, and on a gorm-level
		// connection pool without database/sql (every finish attempt reaches the server log)
		{Name: "prepstmt-len", Quick: 1, Thorough: 1, Fn: func(k *engine.Case) { enumModes(k, modePrepStmt, false) }},
		{Name: "prepstmt-combine", Quick: 1, Thorough: 1, Fn: func(k *engine.Case) { enumModes(k, modePrepStmt, true) }},
		{Name: "gormpool-len", Quick: 1, Thorough: 1, Fn: func(k *engine.Case) { enumModes(k, modePool, false) }},
		{Name: "gormpool-combine", Quick: 1, Thorough: 1, Fn: func(k *engine.Case) { enumModes(k, modePool, true) }},
		{Name: "translate-len", Quick: 1, Thorough: 1, Fn: func(k *engine.Case) { enumModes(k, modeTranslate, false) }},
		{Name: "mixed", Quick: 400, Thorough: 200000, Fn: mixedCase},
		{Name: "sequence", Quick: 200, Thorough: 100000, Fn: sequenceCase},
		{Name: "handles", Quick: 120, Thorough: 20000, Fn: handlesCase},
	},
	// All floors are far below what the (deterministic) enumeration produces.
	Floors: map[string]int64{
		"stated_space_combinations":       2728, // lengths 0..4: sum 4^N * 8, reached exactly in every run
		"enum_combinations":               40000,
		"enum_blocks_completed":           9,
		"enum_blocks_completed_prepstmt":  7,
		"enum_blocks_completed_gormpool":  7,
		"enum_blocks_completed_translate": 4,
		"no_steps_nothing_begun":          8,
		"begin_refused":                   1000,
		"committed":                       100,
		"commit_refused":                  100,
		"rolled_back":                     500,
		"rollback_refused":                500,
		"first_failure_error":             300,
		"first_failure_panic_string":      300,
		"first_failure_panic_error":       300,
		"leaves_skipped_after_failure":    500,
		"combine_early_exit":              200,
		"mixed_programs":                  1000,
		"sequence_transactions":           200,
		"exec_refused":                    50,
	},
}

// ---------------------------------------------------------------- programs

type leafKind uint8

const (
	lOK             leafKind = iota // one Exec on the handle it was given, returns nil
	lErr                            // returns an error
	lPanicStr                       // panic(string)
	lPanicErr                       // panic(error)
	lOKNoExec                       // extras from here (kinds mixed / sequence only): returns nil without touching the handle
	lOK2Exec                        // two Execs, returns nil
	lExecRefused                    // Exec is refused by the server, the step returns that error
	lExecSwallowed                  // Exec is refused, the step ignores it and returns nil
	lErrAfterExec                   // Exec, then returns an error
	lPanicAfterExec                 // Exec, then panic(string)
	lPanicInt                       // panic(int)
	lPanicStruct                    // panic(struct value)
	lErrWrapped                     // returns fmt.Errorf("...%w", E)
	lPanicNilMap                    // runtime panic: write into a nil map
	lPanicIndex                     // runtime panic: index out of range
	lPanicNilDeref                  // runtime panic: nil pointer dereference
)

// the enumerated alphabet is the first four kinds
const nBaseKinds = 4

var leafNames = [...]string{"ok", "err", "pstr", "perr", "ok0", "ok2", "xrefused", "xswallow", "x+err", "x+pstr", "pint", "pstruct", "errw", "pnilmap", "pindex", "pnilptr"}

func (lk leafKind) fails() bool {
	switch lk {
	case lOK, lOKNoExec, lOK2Exec, lExecSwallowed:
		return false
	}
	return true
}

func (lk leafKind) panics() bool {
	switch lk {
	case lPanicStr, lPanicErr, lPanicAfterExec, lPanicInt, lPanicStruct, lPanicNilMap, lPanicIndex, lPanicNilDeref:
		return true
	}
	return false
}

type panicPayload struct {
	Leaf int
	Why  string
}

type leaf struct {
	kind leafKind
	idx  int
	// flavour selects the error value an error-returning / error-panicking step uses:
	// 0 = an error private to the step, 1.. = well-known sentinel errors (a Transact that
	// treated some of them as "not a failure" would break the property for those steps)
	flavour int
	// runtime
	ran      int
	returned error // what the step returned (error-returning kinds)
	payload  any   // what the step panicked with
}

// node is a leaf or a Combine(...) of nodes.
type node struct {
	lf   *leaf
	kids []*node // Combine when lf == nil
}

type program struct {
	top    []*node
	leaves []*leaf
	text   string
	// combineExit: the first failing leaf sits in a Combine that has a later sibling leaf
	combineExit bool
}

func (p *program) finish() {
	var sb strings.Builder
	var spans [][2]int // leaf index range [from, to) of every Combine node
	var walk func(n *node)
	walk = func(n *node) {
		if n.lf != nil {
			n.lf.idx = len(p.leaves)
			p.leaves = append(p.leaves, n.lf)
			sb.WriteString(leafNames[n.lf.kind])
			return
		}
		sb.WriteString("Combine(")
		start := len(p.leaves)
		for i, c := range n.kids {
			if i > 0 {
				sb.WriteString(", ")
			}
			walk(c)
		}
		sb.WriteString(")")
		spans = append(spans, [2]int{start, len(p.leaves)})
	}
	sb.WriteString("Transact(db")
	for _, n := range p.top {
		sb.WriteString(", ")
		walk(n)
	}
	sb.WriteString(")")
	p.text = sb.String()
	f := p.firstFailure()
	for _, sp := range spans {
		if sp[0] <= f && f < sp[1]-1 {
			p.combineExit = true
		}
	}
}

func (p *program) firstFailure() int {
	for i, l := range p.leaves {
		if l.kind.fails() {
			return i
		}
	}
	return len(p.leaves)
}

var sentinelErrors = []error{
	nil, // flavour 0: private error
	gorm.ErrRecordNotFound,
	sql.ErrNoRows,
	sql.ErrTxDone,
	context.Canceled,
	context.DeadlineExceeded,
	io.EOF,
	driver.ErrBadConn,
	gorm.ErrInvalidTransaction,
	gorm.ErrDuplicatedKey,
	&gomysql.MySQLError{Number: 1213, Message: "Deadlock found when trying to get lock; try restarting transaction"},
	&gomysql.MySQLError{Number: 1205, Message: "Lock wait timeout exceeded; try restarting transaction"},
	&gomysql.MySQLError{Number: 1062, Message: "Duplicate entry"},
	&gomysql.MySQLError{Number: 1040, Message: "Too many connections"},
	gomysql.ErrInvalidConn,
}

// stepError returns the error value of a failing step.
func (l *leaf) stepError(private error, wrap bool) error {
	if l.flavour <= 0 || l.flavour >= len(sentinelErrors) {
		return private
	}
	if wrap {
		return fmt.Errorf("c18-step%d-wrapper: %w", l.idx, sentinelErrors[l.flavour])
	}
	return sentinelErrors[l.flavour]
}

const stmtOK = "UPDATE c18_t SET v = ? WHERE id = ?"
const stmtRefused = "UPDATE c18_t SET v = ? WHERE id = ? " + failMarker

func (l *leaf) fn(srv *server) gormx.GormProcFn {
	return func(txn *gorm.DB) error {
		srv.add(event{typ: evStep, leaf: l.idx})
		l.ran++
		exec := func(stmt string, seq int) error { return txn.Exec(stmt, l.idx, seq).Error }
		switch l.kind {
		case lOK:
			// inside the enumerated space the server never refuses a statement
			return exec(stmtOK, 0)
		case lErr:
			l.returned = l.stepError(fmt.Errorf("c18-step%d-error", l.idx), false)
			return l.returned
		case lPanicStr:
			l.payload = fmt.Sprintf("c18-step%d-panic-string", l.idx)
			panic(l.payload)
		case lPanicErr:
			l.payload = l.stepError(fmt.Errorf("c18-step%d-panic-error", l.idx), false)
			panic(l.payload)
		case lOKNoExec:
			return nil
		case lOK2Exec:
			if err := exec(stmtOK, 0); err != nil {
				return err
			}
			return exec(stmtOK, 1)
		case lExecRefused:
			l.returned = exec(stmtRefused, 0)
			return l.returned
		case lExecSwallowed:
			_ = exec(stmtRefused, 0)
			return nil
		case lErrAfterExec:
			_ = exec(stmtOK, 0)
			l.returned = l.stepError(fmt.Errorf("c18-step%d-error-after-exec", l.idx), false)
			return l.returned
		case lPanicAfterExec:
			_ = exec(stmtOK, 0)
			l.payload = fmt.Sprintf("c18-step%d-panic-after-exec", l.idx)
			panic(l.payload)
		case lPanicInt:
			l.payload = 7700000 + l.idx
			panic(l.payload)
		case lPanicStruct:
			l.payload = panicPayload{Leaf: l.idx, Why: "c18-struct-payload"}
			panic(l.payload)
		case lPanicNilMap:
			l.payload = "assignment to entry in nil map"
			var m map[int]int
			m[l.idx] = 1
		case lPanicIndex:
			l.payload = "index out of range"
			var a []int
			_ = a[l.idx+3]
		case lPanicNilDeref:
			l.payload = "nil pointer dereference"
			var pp *panicPayload
			_ = pp.Leaf
		case lErrWrapped:
			l.returned = l.stepError(fmt.Errorf("c18-step%d-wrapper: %w", l.idx, errors.New("c18-inner")), true)
			return l.returned
		}
		return nil
	}
}

func (n *node) build(srv *server) gormx.GormProcFn {
	if n.lf != nil {
		return n.lf.fn(srv)
	}
	fns := make([]gormx.GormProcFn, len(n.kids))
	for i, c := range n.kids {
		fns[i] = c.build(srv)
	}
	return gormx.Combine(fns...)
}

// ---------------------------------------------------------------- environment

// envMode = what sits between gorm and the fake server.
type envMode int

const (
	modeSQL       envMode = iota // database/sql + the fake driver (gorm's default set-up)
	modePrepStmt                 // the same with gorm.Config{PrepareStmt: true} (statement cache; transactions are PreparedStmtTX)
	modePool                     // a gorm.ConnPool / ConnPoolBeginner of the harness, no database/sql
	modeTranslate                // database/sql with gorm.Config{TranslateError: true}: gorm rewrites driver errors it records (1062 -> ErrDuplicatedKey)
)

var modeNames = [...]string{"sql", "prepstmt", "gormpool", "translate"}

type env struct {
	mode  envMode
	srv   *server
	dsn   string
	sqlDB *sql.DB
	db    *gorm.DB
}

func newEnv(mode envMode) (*env, error) {
	srv, dsn := theDriver.newServer()
	if mode == modePool {
		db, err := gorm.Open(mysql.New(mysql.Config{Conn: &gpool{srv: srv}, SkipInitializeWithVersion: true}),
			&gorm.Config{Logger: logger.Discard})
		if err != nil {
			theDriver.drop(dsn)
			return nil, err
		}
		return &env{mode: mode, srv: srv, dsn: dsn, db: db}, nil
	}
	sqlDB, err := sql.Open(driverName, dsn)
	if err != nil {
		theDriver.drop(dsn)
		return nil, err
	}
	db, err := gorm.Open(mysql.New(mysql.Config{Conn: sqlDB, SkipInitializeWithVersion: true}),
		&gorm.Config{Logger: logger.Discard, PrepareStmt: mode == modePrepStmt, TranslateError: mode == modeTranslate})
	if err != nil {
		sqlDB.Close()
		theDriver.drop(dsn)
		return nil, err
	}
	return &env{mode: mode, srv: srv, dsn: dsn, sqlDB: sqlDB, db: db}, nil
}

func (e *env) close() {
	if e.sqlDB != nil {
		e.sqlDB.Close()
	}
	theDriver.drop(e.dsn)
}

type outcome struct {
	events   []event
	err      error
	panicked bool
	escaped  any
	openTx   int
	foreign  int
}

// run executes Transact(db, steps...) under the fault plan. prefix > 0: the caller keeps its
// steps in one slice and first runs a transaction over the first `prefix` of them
// (Transact(db, steps[:prefix]...), fault-free, not judged), then the one over the whole slice -
// the step list is the caller's, whatever Transact does with its variadic parameter.
func (e *env) run(p *program, pl plan, prefix int) *outcome {
	fns := make([]gormx.GormProcFn, len(p.top))
	for i, n := range p.top {
		fns[i] = n.build(e.srv)
	}
	if prefix > 0 && prefix < len(fns) {
		e.srv.reset(plan{})
		func() {
			defer func() { _ = recover() }()
			_ = gormx.Transact(e.db, fns[:prefix]...)
		}()
		for _, l := range p.leaves {
			l.ran, l.returned, l.payload = 0, nil, nil
		}
	}
	e.srv.reset(pl)
	o := &outcome{}
	func() {
		returned := false
		defer func() {
			if !returned {
				o.panicked = true
				o.escaped = recover()
			}
		}()
		o.err = gormx.Transact(e.db, fns...)
		returned = true
	}()
	o.events, o.openTx, o.foreign = e.srv.snapshot()
	return o
}

// ---------------------------------------------------------------- oracle

type finding struct{ class, msg string }

func mentions(err error, text string) bool {
	return text != "" && strings.Contains(err.Error(), text)
}

// judge applies the property statement to one observed Transact call.
func judge(p *program, pl plan, o *outcome) (fs []finding) {
	add := func(class, format string, a ...any) {
		fs = append(fs, finding{class, fmt.Sprintf(format, a...)})
	}
	n := len(p.leaves)
	f := p.firstFailure()

	if o.panicked {
		add("panic-escaped", "Transact let a panic escape to the caller: %v", o.escaped)
	}

	var nBeginOK, nBeginFail, nCommit, nRollback, nStep, nExec int
	txid := 0
	for _, e := range o.events {
		switch e.typ {
		case evBegin:
			if e.ok {
				nBeginOK++
				if txid == 0 {
					txid = e.tx
				}
			} else {
				nBeginFail++
			}
		case evCommit:
			nCommit++
		case evRollback:
			nRollback++
		case evStep:
			nStep++
		case evExec:
			if e.leaf >= 0 {
				nExec++
			}
		}
	}

	// "With no steps nothing is begun."
	if len(p.top) == 0 {
		if nBeginOK+nBeginFail+nCommit+nRollback+nExec > 0 {
			add("no-steps-activity", "no steps were supplied but the server saw %s", eventsString(o.events))
		}
		if !o.panicked && o.err != nil {
			add("no-steps-error", "no steps were supplied but the result is %q", o.err)
		}
		return
	}

	// "a failure to begin runs no step"
	if pl.beginFail {
		if nStep > 0 {
			add("step-after-begin-failure", "begin was refused but %d step(s) ran", nStep)
		}
		if nCommit+nRollback+nExec+nBeginOK > 0 {
			add("activity-after-begin-failure", "begin was refused but the server then saw more than the begin attempt: %s", eventsString(o.events))
		}
		if nBeginFail == 0 {
			add("begin-missing", "steps were supplied but no transaction was begun")
		}
		if !o.panicked && o.err == nil {
			add("begin-error-dropped", "begin was refused but the result is nil")
		}
		return
	}

	if nBeginOK+nBeginFail == 0 {
		add("begin-missing", "steps were supplied but no transaction was begun")
	} else if nBeginOK != 1 {
		add("begin-count", "%d transactions were begun for one Transact call", nBeginOK)
	}

	// "no later step runs" / every step up to the first failure ran, once, in order
	last := f
	if last > n-1 {
		last = n - 1
	}
	var ran []int
	late := false
	for _, e := range o.events {
		if e.typ == evStep {
			ran = append(ran, e.leaf)
			if e.leaf > f {
				late = true
			}
		}
	}
	if late {
		add("step-after-failure", "step %d failed first but the steps that ran are %v", f, ran)
	} else {
		okSeq := len(ran) == last+1
		for i := 0; okSeq && i < len(ran); i++ {
			okSeq = ran[i] == i
		}
		if !okSeq {
			add("step-sequence", "expected steps 0..%d to run once each in order, ran %v", last, ran)
		}
	}

	// the steps work on the transaction that Transact began
	for _, e := range o.events {
		if e.typ == evExec && e.leaf >= 0 && (e.tx == 0 || e.tx != txid) {
			add("step-outside-txn", "the Exec of step %d ran outside the transaction begun by Transact (%s)", e.leaf, e)
			break
		}
	}

	// "finished exactly once" ... "committed iff every step returned nil, otherwise rolled back"
	firstFin := -1
	for i, e := range o.events {
		if e.typ == evCommit || e.typ == evRollback {
			firstFin = i
			break
		}
	}
	switch {
	case nCommit+nRollback == 0:
		add("not-finished", "the transaction was neither committed nor rolled back")
	case nCommit+nRollback > 1:
		add("finished-twice", "the server saw %d commit and %d rollback attempts for one transaction", nCommit, nRollback)
	}
	committedOK := false
	if firstFin >= 0 {
		fe := o.events[firstFin]
		for _, e := range o.events[firstFin+1:] {
			if e.typ == evStep || (e.typ == evExec && e.leaf >= 0) {
				add("activity-after-finish", "%s happened after %s", e, fe)
				break
			}
		}
		if fe.tx != txid {
			add("finish-wrong-txn", "%s does not belong to transaction %d", fe, txid)
		}
		if f == n && fe.typ == evRollback {
			add("rollback-despite-success", "every step returned nil but the transaction was rolled back")
		}
		if f < n && fe.typ == evCommit {
			add("commit-despite-failure", "step %d (%s) failed but the transaction was committed", f, leafNames[p.leaves[f].kind])
		}
		for _, e := range o.events {
			if e.typ == evCommit && e.ok {
				committedOK = true
			}
		}
	}
	if o.openTx != 0 {
		add("txn-left-open", "%d transaction(s) still open at the server after Transact returned", o.openTx)
	}

	// the result
	if o.panicked {
		return
	}
	switch {
	case f == n && !pl.commitFail:
		if o.err != nil && committedOK {
			add("error-despite-commit", "the commit succeeded but the result is %q", o.err)
		}
		if o.err == nil && !committedOK {
			add("nil-without-commit", "the result is nil although no commit succeeded")
		}
	case f == n && pl.commitFail:
		if o.err == nil {
			add("commit-error-dropped", "the commit was refused but the result is nil")
		}
	default:
		lf := p.leaves[f]
		if o.err == nil {
			add("failure-swallowed", "step %d (%s) failed but the result is nil", f, leafNames[lf.kind])
		} else if lf.ran > 0 {
			if lf.kind.panics() {
				ok := mentions(o.err, fmt.Sprint(lf.payload)) || strings.Contains(strings.ToLower(o.err.Error()), "panic")
				if e, isErr := lf.payload.(error); isErr && errors.Is(o.err, e) {
					ok = true
				}
				if !ok {
					add("wrong-error", "step %d panicked with %v but the result %q does not describe that panic", f, lf.payload, o.err)
				}
			} else if lf.returned != nil {
				if !errors.Is(o.err, lf.returned) && !mentions(o.err, lf.returned.Error()) {
					add("wrong-error", "step %d returned %q but the result is %q", f, lf.returned, o.err)
				}
			}
		}
	}
	return
}

// ---------------------------------------------------------------- bookkeeping shared by all kinds

type caseState struct {
	prefixes bool // kinds mixed / sequence: some transactions are preceded by one over a prefix of the same step slice
	k        *engine.Case
	mode     envMode
	e        *env
	failed   map[string]int
	logged   int
	aborted  bool
}

func newState(k *engine.Case) *caseState { return newStateMode(k, modeSQL) }

var (
	nopLogger = &ulog.Logger{Logger: zap.NewNop()}
	// a development-mode logger (DPanic-level entries panic) that writes nowhere
	devLogger = &ulog.Logger{Logger: zap.New(zapcore.NewNopCore(), zap.Development())}
)

func newStateMode(k *engine.Case, mode envMode) *caseState {
	// the module logs through the process-wide default logger: production-style or development-style
	// (always development-style in the prepstmt set-up, so that every run has the enumerated
	// blocks under both)
	if mode == modePrepStmt || k.R.Intn(3) == 0 {
		ulog.SetDefaultLogger(devLogger)
		k.Count("cases_with_development_logger", 1)
	} else {
		ulog.SetDefaultLogger(nopLogger)
	}
	st := &caseState{k: k, mode: mode, failed: map[string]int{}}
	st.fresh()
	return st
}

func (st *caseState) fresh() {
	if st.e != nil {
		st.e.close()
		st.e = nil
	}
	e, err := newEnv(st.mode)
	if err != nil {
		st.k.Inconclusive("cannot open the fake database: " + err.Error())
		st.aborted = true
		return
	}
	st.e = e
}

func (st *caseState) done() {
	if st.e != nil {
		st.e.close()
	}
}

func resultString(o *outcome) string {
	if o.panicked {
		return fmt.Sprintf("PANIC %v", o.escaped)
	}
	if o.err == nil {
		return "nil"
	}
	return fmt.Sprintf("%q", o.err.Error())
}

// evaluate runs one (program, plan), judges it, counts coverage, logs when asked.
func (st *caseState) evaluate(p *program, pl plan, logIt bool) {
	k := st.k
	if st.aborted {
		return
	}
	prefix := 0
	if st.prefixes && len(p.top) >= 2 && k.R.Intn(3) == 0 {
		prefix = 1 + k.R.Intn(len(p.top)-1)
		k.Count("transactions_after_a_prefix_transaction", 1)
	}
	o := st.e.run(p, pl, prefix)
	fs := judge(p, pl, o)
	k.Evals(1)

	// coverage from what was observed
	n := len(p.leaves)
	f := p.firstFailure()
	fired := false
	var sawRollback bool
	for _, e := range o.events {
		switch e.typ {
		case evBegin:
			if !e.ok {
				k.Count("begin_refused", 1)
				fired = true
				if o.err != nil && (errors.Is(o.err, errBegin) || mentions(o.err, errBegin.Error())) {
					k.Count("begin_error_identity", 1)
				}
			}
		case evCommit:
			if e.ok {
				k.Count("committed", 1)
			} else {
				k.Count("commit_refused", 1)
				fired = true
				if o.err != nil && (errors.Is(o.err, errCommit) || mentions(o.err, errCommit.Error())) {
					k.Count("commit_error_identity", 1)
				}
			}
		case evRollback:
			sawRollback = true
			if e.ok {
				k.Count("rolled_back", 1)
			} else {
				k.Count("rollback_refused", 1)
				fired = true
			}
		case evExec:
			if !e.ok {
				k.Count("exec_refused", 1)
				fired = true
			} else {
				k.Count("exec_ok", 1)
			}
		}
	}
	if len(p.top) == 0 {
		if len(o.events) == 0 && o.err == nil {
			k.Count("no_steps_nothing_begun", 1)
		}
	}
	if f < n && p.leaves[f].ran > 0 {
		fired = true
		lf := p.leaves[f]
		switch lf.kind {
		case lErr, lErrAfterExec, lErrWrapped, lExecRefused:
			k.Count("first_failure_error", 1)
			if o.err != nil && lf.returned != nil && errors.Is(o.err, lf.returned) {
				k.Count("result_is_step_error", 1)
			}
		case lPanicStr, lPanicAfterExec:
			k.Count("first_failure_panic_string", 1)
		case lPanicErr:
			k.Count("first_failure_panic_error", 1)
		default:
			k.Count("first_failure_panic_other", 1)
		}
		if lf.kind.panics() && o.err != nil && mentions(o.err, fmt.Sprint(lf.payload)) {
			k.Count("result_mentions_panic_value", 1)
		}
		k.Count(fmt.Sprintf("first_failure_at_leaf_%02d", f), 1)
		if sawRollback {
			k.Count("leaves_skipped_after_failure", int64(n-1-f))
			if p.combineExit {
				k.Count("combine_early_exit", 1)
			}
		}
	}
	if o.foreign > 0 {
		k.Count("foreign_statements", int64(o.foreign))
	}
	if fired {
		k.Nontrivial()
		k.Distinct(engine.HashStr(p.text + " | " + pl.String() + " | " + modeNames[st.mode]))
		k.Count("fault_fired", 1)
	} else {
		k.Count("no_fault_fired", 1)
	}

	line := func() string {
		return fmt.Sprintf("[%s] %s  %s  => events=%s result=%s", modeNames[st.mode], p.text, pl, eventsString(o.events), resultString(o))
	}
	if len(fs) == 0 {
		if logIt && st.logged < 120 {
			st.logged++
			k.Logf("%s", line())
		}
		return
	}
	// violations: at most two witnesses per class and case, the rest is counted
	dirty := false
	for _, fd := range fs {
		dirty = true
		st.failed[fd.class]++
		if st.failed[fd.class] > 2 {
			k.Count("violations_not_listed", 1)
			continue
		}
		k.Logf("VIOLATED %s: %s", fd.class, fd.msg)
		k.Logf("   program: %s", p.text)
		k.Logf("   faults:  %s   (set-up: %s)", pl, modeNames[st.mode])
		k.Logf("   events:  %s", eventsString(o.events))
		k.Logf("   result:  %s", resultString(o))
		k.Fail(fd.class, "%s | program: %s | faults: %s | between gorm and the server: %s | events: %s | result: %s", fd.msg, p.text, pl, modeNames[st.mode], eventsString(o.events), resultString(o))
	}
	if dirty {
		// do not let a transaction that was left open influence the next combination
		st.fresh()
	}
}

// ---------------------------------------------------------------- enumerated kinds

func plans() []plan {
	var out []plan
	for i := 0; i < 8; i++ {
		out = append(out, plan{beginFail: i&4 != 0, commitFail: i&2 != 0, rollbackFail: i&1 != 0})
	}
	return out
}

func pow(b, e int) int {
	r := 1
	for ; e > 0; e-- {
		r *= b
	}
	return r
}

// groupedProgram builds the step list `kinds` regrouped by `cuts` (bit i set = a group
// boundary between leaf i and leaf i+1). wrapSingles: one-leaf groups become
// Combine(leaf) too and an empty Combine() is put in front.
func groupedProgram(kinds []leafKind, cuts int, combine, wrapSingles bool) *program {
	p := &program{}
	if !combine {
		for _, lk := range kinds {
			p.top = append(p.top, &node{lf: &leaf{kind: lk}})
		}
		p.finish()
		return p
	}
	if wrapSingles {
		p.top = append(p.top, &node{})
	}
	var grp []*node
	flush := func() {
		if len(grp) == 1 && !wrapSingles {
			p.top = append(p.top, grp[0])
		} else {
			p.top = append(p.top, &node{kids: grp})
		}
		grp = nil
	}
	for i, lk := range kinds {
		grp = append(grp, &node{lf: &leaf{kind: lk}})
		if i == len(kinds)-1 || cuts&(1<<i) != 0 {
			flush()
		}
	}
	p.finish()
	return p
}

// enumCase enumerates one complete block: all step lists of length n (x groupings) x 8 plans.
func enumCase(k *engine.Case, n int, combine bool) { enumCaseMode(k, n, combine, modeSQL) }

func enumCaseMode(k *engine.Case, n int, combine bool, mode envMode) {
	st := newStateMode(k, mode)
	defer st.done()
	lists := pow(int(nBaseKinds), n)
	groupings, modes := 1, 1
	if combine {
		groupings, modes = pow(2, n-1), 2
	}
	pls := plans()
	total := lists * groupings * modes * len(pls)
	stride := total / 40
	if stride < 1 {
		stride = 1
	}
	off := k.R.Intn(stride) // the seed only chooses which combinations are written out
	name := "len"
	if combine {
		name = "combine"
	}
	k.Logf("block %s%d: %d step lists x %d groupings x %d wrap modes x %d fault plans = %d combinations, all run; every %dth is listed (offset %d)",
		name, n, lists, groupings, modes, len(pls), total, stride, off)
	kinds := make([]leafKind, n)
	idx := 0
	for code := 0; code < lists; code++ {
		c := code
		for i := n - 1; i >= 0; i-- {
			kinds[i] = leafKind(c % int(nBaseKinds))
			c /= int(nBaseKinds)
		}
		for g := 0; g < groupings; g++ {
			for m := 0; m < modes; m++ {
				for _, pl := range pls {
					p := groupedProgram(kinds, g, combine, m == 1)
					st.evaluate(p, pl, idx%stride == off)
					idx++
				}
			}
		}
	}
	// sentinel pass: the same step lists again with every well-known sentinel error as the
	// value that failing steps return / panic with (fault-free begin/commit/rollback)
	flav := 0
	if n >= 1 && !st.aborted {
		okPlan := pls[0]
		for code := 0; code < lists; code++ {
			c := code
			hasErr := false
			for i := n - 1; i >= 0; i-- {
				kinds[i] = leafKind(c % int(nBaseKinds))
				c /= int(nBaseKinds)
				if kinds[i] == lErr || kinds[i] == lPanicErr {
					hasErr = true
				}
			}
			if !hasErr {
				continue
			}
			for fl := 1; fl < len(sentinelErrors); fl++ {
				p := groupedProgram(kinds, (code+fl)%groupings, combine, false)
				for _, l := range p.leaves {
					l.flavour = fl
				}
				st.evaluate(p, okPlan, flav%97 == 0)
				flav++
			}
		}
		k.Count("enum_sentinel_error_combinations", int64(flav))
	}
	if st.aborted {
		return
	}
	if mode != modeSQL {
		// the same blocks again on another set-up between gorm and the server: counted apart
		tag := modeNames[mode]
		k.Count("enum_combinations_"+tag, int64(idx))
		if idx == total {
			k.Count("enum_blocks_completed_"+tag, 1)
		}
		return
	}
	k.Count("enum_combinations", int64(idx))
	if !combine {
		k.Count(fmt.Sprintf("enum_len%d_combinations", n), int64(idx))
		if n <= 4 {
			k.Count("stated_space_combinations", int64(idx))
		}
	} else {
		k.Count(fmt.Sprintf("enum_combine%d_combinations", n), int64(idx))
	}
	if idx == total {
		k.Count("enum_blocks_completed", 1)
	}
}

// enumModes: blocks of length 0..3 (combine: 1..3) on another set-up; thorough: up to 5 (4).
func enumModes(k *engine.Case, mode envMode, combine bool) {
	hi := 3
	if k.C.Thorough() {
		hi = 5
		if combine {
			hi = 4
		}
	}
	lo := 0
	if combine {
		lo = 1
	}
	for n := lo; n <= hi; n++ {
		enumCaseMode(k, n, combine, mode)
	}
}

// ---------------------------------------------------------------- sampled extras

// randomProgram draws a program with nested Combine and the full leaf alphabet.
// Bias: most leaves succeed so that failures sit deep; the failing position is spread.
func randomProgram(k *engine.Case, maxLeaves int) *program {
	r := k.R
	nl := 1 + r.Intn(maxLeaves)
	if r.Intn(12) == 0 {
		nl = 0
	}
	okKinds := []leafKind{lOK, lOK, lOK, lOK2Exec, lOKNoExec, lExecSwallowed}
	badKinds := []leafKind{lErr, lPanicStr, lPanicErr, lExecRefused, lErrAfterExec, lPanicAfterExec, lPanicInt, lPanicStruct, lErrWrapped, lPanicNilMap, lPanicIndex, lPanicNilDeref}
	pBad := []int{0, 8, 4, 2}[r.Intn(4)] // 0: never, else 1/pBad per leaf
	leaves := make([]*node, nl)
	flavours := make([]int, nl)
	for i := range leaves {
		lk := okKinds[r.Intn(len(okKinds))]
		if pBad > 0 && r.Intn(pBad) == 0 {
			lk = badKinds[r.Intn(len(badKinds))]
			if r.Intn(2) == 0 {
				flavours[i] = 1 + r.Intn(len(sentinelErrors)-1)
			}
		}
		leaves[i] = &node{lf: &leaf{kind: lk, flavour: flavours[i]}}
	}
	// random bracketing, depth <= 3, with occasional empty Combine()
	var group func(ns []*node, depth int) []*node
	group = func(ns []*node, depth int) []*node {
		var out []*node
		for i := 0; i < len(ns); {
			if depth < 3 && r.Intn(3) == 0 {
				w := 1 + r.Intn(len(ns)-i)
				out = append(out, &node{kids: group(ns[i:i+w], depth+1)})
				i += w
			} else {
				out = append(out, ns[i])
				i++
			}
			if r.Intn(10) == 0 {
				out = append(out, &node{})
			}
		}
		return out
	}
	p := &program{}
	if nl > 0 {
		p.top = group(leaves, 0)
	} else if r.Intn(2) == 0 {
		p.top = []*node{{}} // Transact(db, Combine()): one step that does nothing
	}
	p.finish()
	return p
}

func randomPlan(k *engine.Case) plan {
	r := k.R
	pl := plan{beginFail: r.Intn(8) == 0, commitFail: r.Intn(3) == 0, rollbackFail: r.Intn(3) == 0}
	if pl.beginFail && r.Intn(2) == 0 {
		pl.beginOnce = 1 + r.Intn(4)
		k.Count("plans_begin_refused_once_conn_error", 1)
	}
	return pl
}

func mixedCase(k *engine.Case) {
	mode := envMode(k.R.Intn(4))
	k.Count("mixed_cases_"+modeNames[mode], 1)
	st := newStateMode(k, mode)
	st.prefixes = true
	defer st.done()
	for i := 0; i < 25 && !st.aborted; i++ {
		p := randomProgram(k, 10)
		pl := randomPlan(k)
		st.evaluate(p, pl, true)
		k.Count("mixed_programs", 1)
		k.C.Max("mixed_leaves", int64(len(p.leaves)))
	}
}

// sequenceCase: several Transact calls one after the other on the same *gorm.DB (and
// therefore the same connection pool); each is judged on its own slice of the log.
func sequenceCase(k *engine.Case) {
	mode := envMode(k.R.Intn(4))
	k.Count("sequence_cases_"+modeNames[mode], 1)
	st := newStateMode(k, mode)
	st.prefixes = true
	defer st.done()
	n := 4 + k.R.Intn(12)
	for i := 0; i < n && !st.aborted; i++ {
		p := randomProgram(k, 5)
		pl := randomPlan(k)
		e := st.e
		st.evaluate(p, pl, true)
		k.Count("sequence_transactions", 1)
		if st.e == e {
			e.srv.mu.Lock()
			conns := e.srv.conns
			e.srv.mu.Unlock()
			k.C.Max("sequence_connections_used", int64(conns))
		}
	}
}

package c20

import (
	"math/rand"
	"runtime"
	"sync"
	"sync/atomic"

	"verifh/engine"
)

var coldStartDone atomic.Bool

// coldStartCase is the first kind of the check, so the first case of it in every child process
// makes that process's very first calls of the encoders and decoders - from several goroutines
// at the same instant. Whatever a wrapper sets up lazily on first use must be ready for every
// caller: each goroutine's value has to round-trip. Later cases of the kind run the same burst
// on the warm process.
func coldStartCase(k *engine.Case) {
	cold := coldStartDone.CompareAndSwap(false, true)
	if cold {
		k.Count("cold_start_bursts_in_fresh_process", 1)
	} else {
		k.Count("cold_start_bursts_in_warm_process", 1)
	}
	r := k.R
	const g = 12
	type job struct {
		t *jtype
		v rtValue
	}
	jobs := make([][]job, g)
	for w := range jobs {
		rr := rand.New(rand.NewSource(r.Int63()))
		// every goroutine starts with the slash-separated byte list (its encoder is the one
		// most likely to be table driven), then the other types
		for i := 0; i < 4; i++ {
			t := jtypes[rr.Intn(len(jtypes))]
			if i == 0 {
				for _, c := range jtypes {
					if c.name == "JsByte" {
						t = c
					}
				}
			}
			jobs[w] = append(jobs[w], job{t, t.draw(rr)})
		}
	}
	k.Logf("first use of the encoders in this process: %v; %d goroutines at once", cold, g)
	k.Nontrivial()
	old := runtime.GOMAXPROCS(16)
	defer runtime.GOMAXPROCS(old)
	type res struct {
		j    job
		tok  []byte
		obs  string
		eerr error
		derr error
	}
	out := make([][]res, g)
	var ready atomic.Int32
	var wg sync.WaitGroup
	for w := 0; w < g; w++ {
		w := w
		wg.Add(1)
		go func() {
			defer wg.Done()
			ready.Add(1)
			for ready.Load() < g { // spin: all start within the same microsecond
			}
			for _, j := range jobs[w] {
				tok, eerr := j.v.encode(direct)
				var obs string
				var derr error
				if eerr == nil {
					obs, derr = j.v.decode(direct, tok)
				}
				out[w] = append(out[w], res{j, tok, obs, eerr, derr})
			}
		}()
	}
	wg.Wait()
	for _, rs := range out {
		for _, x := range rs {
			k.Evals(1)
			if x.eerr != nil {
				fail(k, "encode-error:"+x.j.t.name, "%s: MarshalJSON(%s) failed in a burst of first calls: %v", x.j.t.name, x.j.v.show, x.eerr)
				continue
			}
			rtCheck(k, x.j.t.name, "direct-cold-start", x.j.v.show, x.j.v.want, x.tok, x.obs, x.derr)
		}
	}
}

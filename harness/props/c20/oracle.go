package c20

// Oracles: arbitrary-precision denotation of a JSON scalar token (or plain text) for
// every wrapper type. A spec lists the observed values that are acceptable when the
// decoder reports success; an error is always acceptable unless the token is the
// encoder's own output (required).

import (
	"encoding/json"
	"math"
	"math/big"
	"regexp"
	"strings"
	"time"
)

var (
	bigMinI64 = big.NewInt(math.MinInt64)
	bigMaxI64 = big.NewInt(math.MaxInt64)
	bigMaxU64 = new(big.Int).SetUint64(math.MaxUint64)
	bigZero   = big.NewInt(0)
	big255    = big.NewInt(255)
)

// spec is the oracle's judgement of one input before the decoder is run.
type spec struct {
	class    string   // token class (coverage)
	accepted []string // acceptable observations on success
	required bool     // the input is the encoder's own output: success is mandatory
}

func inRange(v, lo, hi *big.Int) bool { return v.Cmp(lo) >= 0 && v.Cmp(hi) <= 0 }

const blanks = " \t\r\n"

// decText parses ^[+-]?[0-9]+$ ; ok=false otherwise.
func decText(t string) (v *big.Int, plus, lead0, ok bool) {
	s := t
	neg := false
	if s != "" && (s[0] == '+' || s[0] == '-') {
		neg = s[0] == '-'
		plus = s[0] == '+'
		s = s[1:]
	}
	if s == "" {
		return nil, false, false, false
	}
	for i := 0; i < len(s); i++ {
		if s[i] < '0' || s[i] > '9' {
			return nil, false, false, false
		}
	}
	v = new(big.Int)
	for i := 0; i < len(s); i++ { // own accumulation: no reliance on a library parser
		v.Mul(v, big.NewInt(10))
		v.Add(v, big.NewInt(int64(s[i]-'0')))
	}
	if neg {
		v.Neg(v)
	}
	lead0 = len(s) > 1 && s[0] == '0'
	return v, plus, lead0, true
}

var jsonNumRe = regexp.MustCompile(`^-?(0|[1-9][0-9]*)(\.[0-9]+)?([eE][+-]?[0-9]{1,3})?$`)

// jsonNumber returns the exact rational value of a well-formed JSON number token
// (exponents of more than three digits are not evaluated: no value of any type here).
func jsonNumber(tok string) (*big.Rat, bool) {
	if !jsonNumRe.MatchString(tok) {
		return nil, false
	}
	r, ok := new(big.Rat).SetString(tok)
	return r, ok
}

func unquote(tok []byte) (string, bool) {
	var s string
	if err := json.Unmarshal(tok, &s); err != nil {
		return "", false
	}
	return s, true
}

// literal classes shared by all types; nullOK lists what a successful decode of null
// may leave behind (untouched sentinel or a zero value).
func literalSpec(tok string, nullOK []string) (spec, bool) {
	switch tok {
	case "null":
		return spec{class: "null", accepted: nullOK}, true
	case "true", "false":
		return spec{class: "bool"}, true
	}
	return spec{}, false
}

// intSpec: denotation of a token for a decimal integer type with range [lo,hi].
func intSpec(tok []byte, lo, hi *big.Int, nullOK []string) spec {
	ts := string(tok)
	if sp, ok := literalSpec(ts, nullOK); ok {
		return sp
	}
	if tok[0] != '"' {
		r, ok := jsonNumber(ts)
		if !ok {
			return spec{class: "bare_unparsed"}
		}
		cls := "bare_int"
		switch {
		case strings.ContainsAny(ts, "eE"):
			cls = "bare_exp"
		case strings.Contains(ts, "."):
			cls = "bare_frac"
		case ts[0] == '-':
			cls = "bare_negint"
		}
		if len(ts) <= 2 {
			cls = "bare_short"
		}
		if !r.IsInt() {
			return spec{class: cls + "_nonint"}
		}
		if !inRange(r.Num(), lo, hi) {
			return spec{class: cls + "_oor"}
		}
		return spec{class: cls, accepted: []string{r.Num().String()}}
	}
	s, ok := unquote(tok)
	if !ok {
		return spec{class: "quoted_unparsed"}
	}
	raw := ts[1 : len(ts)-1]
	t := strings.Trim(s, blanks)
	pre := ""
	switch {
	case raw != s:
		pre = "quoted_escaped_"
	case t != s:
		pre = "quoted_blank_"
	default:
		pre = "quoted_"
	}
	if t == "" {
		// the empty string is "error or 0" by convention (JsInt64 does it on purpose)
		return spec{class: pre + "empty", accepted: []string{"0"}}
	}
	v, plus, lead0, ok := decText(t)
	if !ok {
		if t == "+" || t == "-" {
			return spec{class: pre + "signonly"}
		}
		// "1e3", "12.0": not a decimal integer text, but a decoder that reads it as the
		// number it spells is not mis-decoding; error or that value
		if r, isNum := jsonNumber(t); isNum && r.IsInt() && inRange(r.Num(), lo, hi) {
			return spec{class: pre + "numtext", accepted: []string{r.Num().String()}}
		}
		return spec{class: pre + "junk"}
	}
	if !inRange(v, lo, hi) {
		return spec{class: pre + "oor"}
	}
	cls := "int"
	switch {
	case lead0:
		cls = "lead0"
	case plus:
		cls = "plus"
	case v.Sign() < 0:
		cls = "negint"
	}
	return spec{class: pre + cls, accepted: []string{v.String()}, required: ts == `"`+v.String()+`"`}
}

// listText: denotation of a slash separated byte list (content of the string).
func listText(s string) (obs string, cls string, ok bool) {
	if s == "" {
		return "", "list_empty", true
	}
	if strings.Trim(s, blanks) == "" {
		// nothing but blanks: "error or the empty list", like the empty string
		return "", "list_blank_empty", true
	}
	parts := strings.Split(s, "/")
	out := make([]string, len(parts))
	cls = "list_ok"
	for i, p := range parts {
		t := strings.Trim(p, blanks)
		if t != p {
			cls = "list_blank"
		}
		v, plus, lead0, ok := decText(t)
		if !ok {
			if t == "" {
				return "", "list_elem_empty", false
			}
			return "", "list_elem_junk", false
		}
		if v.Sign() < 0 {
			return "", "list_elem_negative", false
		}
		if v.Cmp(big255) > 0 {
			return "", "list_elem_over255", false
		}
		if (plus || lead0 || t[0] == '-') && cls == "list_ok" {
			cls = "list_decorated"
		}
		out[i] = v.String()
	}
	if len(parts) == 1 && cls == "list_ok" {
		cls = "list_single"
	}
	return strings.Join(out, "/"), cls, true
}

func byteSpec(tok []byte, nullOK []string) spec {
	ts := string(tok)
	if sp, ok := literalSpec(ts, nullOK); ok {
		return sp
	}
	if tok[0] != '"' {
		r, ok := jsonNumber(ts)
		if !ok {
			return spec{class: "bare_unparsed"}
		}
		cls := "bare_int"
		if len(ts) <= 2 {
			cls = "bare_short"
		}
		if !r.IsInt() {
			return spec{class: "bare_nonint"}
		}
		if !inRange(r.Num(), bigZero, big255) {
			return spec{class: cls + "_oor"}
		}
		return spec{class: cls, accepted: []string{r.Num().String()}}
	}
	s, ok := unquote(tok)
	if !ok {
		return spec{class: "quoted_unparsed"}
	}
	raw := ts[1 : len(ts)-1]
	obs, cls, ok := listText(s)
	if raw != s {
		cls = "escaped_" + cls
	}
	if !ok {
		return spec{class: cls}
	}
	return spec{class: cls, accepted: []string{obs}, required: raw == obs}
}

// textByteSpec is byteSpec for FromString (no JSON layer).
func textByteSpec(s string) spec {
	obs, cls, ok := listText(s)
	if !ok {
		return spec{class: cls}
	}
	return spec{class: cls, accepted: []string{obs}, required: s == obs}
}

var durUnits = map[string]int64{
	"ns": 1, "us": 1e3, "µs": 1e3, "μs": 1e3, "ms": 1e6, "s": 1e9, "m": 60e9, "h": 3600e9,
}

// durText: exact value in ns of a duration text per the documented grammar
// [-+]?([0-9]*(\.[0-9]*)?unit)+ | [-+]?0
//
// ndirty counts the terms whose fraction has more digits than the unit can hold as
// whole nanoseconds ("0.1234567ms"): such a term is not a whole number of ns and the
// statement does not say how it is rounded, so each may move the result by up to 1 ns.
func durText(s string) (val *big.Rat, ndirty int, ok bool) {
	neg := false
	if s != "" && (s[0] == '+' || s[0] == '-') {
		neg = s[0] == '-'
		s = s[1:]
	}
	if s == "0" {
		return new(big.Rat), 0, true
	}
	if s == "" {
		return nil, 0, false
	}
	nterms := 0
	total := new(big.Rat)
	for s != "" {
		i := 0
		for i < len(s) && s[i] >= '0' && s[i] <= '9' {
			i++
		}
		ip := s[:i]
		s = s[i:]
		fp := ""
		dot := false
		if s != "" && s[0] == '.' {
			dot = true
			s = s[1:]
			j := 0
			for j < len(s) && s[j] >= '0' && s[j] <= '9' {
				j++
			}
			fp = s[:j]
			s = s[j:]
		}
		_ = dot
		if ip == "" && fp == "" {
			return nil, 0, false
		}
		j := 0
		for j < len(s) && s[j] != '.' && (s[j] < '0' || s[j] > '9') {
			j++
		}
		u, found := durUnits[s[:j]]
		if !found {
			return nil, 0, false
		}
		s = s[j:]
		num := new(big.Int)
		for _, c := range ip + fp {
			num.Mul(num, big.NewInt(10))
			num.Add(num, big.NewInt(int64(c-'0')))
		}
		den := new(big.Int).Exp(big.NewInt(10), big.NewInt(int64(len(fp))), nil)
		term := new(big.Rat).SetFrac(num, den)
		term.Mul(term, new(big.Rat).SetInt64(u))
		total.Add(total, term)
		nterms++
		if new(big.Int).Rem(big.NewInt(u), den).Sign() != 0 {
			ndirty++
		}
	}
	if nterms > 1 && ndirty == 0 {
		ndirty = -nterms // clean multi-term text: reported through the sign, see durTextSpec
	}
	if neg {
		total.Neg(total)
	}
	return total, ndirty, true
}

// durAccepted lists the ns values acceptable for an exact value: the value itself when
// it is a whole number of ns, otherwise every integer closer than one ns per term
// (the statement does not say how a sub-nanosecond fraction is rounded).
func durAccepted(val *big.Rat, ndirty int) (acc []string, cls string) {
	if ndirty <= 0 {
		// every term is a whole number of ns, so is the sum
		if !val.IsInt() || !inRange(val.Num(), bigMinI64, bigMaxI64) {
			return nil, "oor"
		}
		return []string{val.Num().String()}, "exact"
	}
	fl := new(big.Int).Div(val.Num(), val.Denom()) // floor
	tol := new(big.Rat).SetInt64(int64(ndirty))
	for d := int64(-ndirty) - 1; d <= int64(ndirty)+1; d++ {
		x := new(big.Int).Add(fl, big.NewInt(d))
		diff := new(big.Rat).Sub(new(big.Rat).SetInt(x), val)
		diff.Abs(diff)
		if diff.Cmp(tol) <= 0 && inRange(x, bigMinI64, bigMaxI64) {
			acc = append(acc, x.String())
		}
	}
	if len(acc) == 0 {
		return nil, "oor"
	}
	return acc, "subns"
}

func durTextSpec(s string, pre string) spec {
	t := strings.Trim(s, blanks)
	if t != s {
		pre += "blank_"
	}
	if t == "" {
		return spec{class: pre + "empty"}
	}
	val, n, ok := durText(t)
	if !ok {
		if _, _, _, isnum := decText(t); isnum {
			return spec{class: pre + "nounit"}
		}
		return spec{class: pre + "junk"}
	}
	acc, cls := durAccepted(val, n)
	if cls == "exact" && n < 0 {
		cls = "multi"
	}
	sp := spec{class: pre + cls, accepted: acc}
	if len(acc) == 1 && val.IsInt() {
		sp.required = s == time.Duration(val.Num().Int64()).String()
	}
	return sp
}

func durSpec(tok []byte, nullOK []string) spec {
	ts := string(tok)
	if sp, ok := literalSpec(ts, nullOK); ok {
		return sp
	}
	if tok[0] != '"' {
		// a bare number has no unit; "error or that many nanoseconds" (how encoding/json
		// itself writes a time.Duration) is all that is asked
		r, ok := jsonNumber(ts)
		if !ok {
			return spec{class: "bare_unparsed"}
		}
		if !r.IsInt() {
			return spec{class: "bare_nonint"}
		}
		if !inRange(r.Num(), bigMinI64, bigMaxI64) {
			return spec{class: "bare_oor"}
		}
		cls := "bare_int"
		if len(ts) <= 2 {
			cls = "bare_short"
		}
		return spec{class: cls, accepted: []string{r.Num().String()}}
	}
	s, ok := unquote(tok)
	if !ok {
		return spec{class: "quoted_unparsed"}
	}
	pre := "quoted_"
	if ts[1:len(ts)-1] != s {
		pre = "quoted_escaped_"
	}
	sp := durTextSpec(s, pre)
	if pre != "quoted_" {
		sp.required = false
	}
	return sp
}

const b64alpha = "ABCDEFGHIJKLMNOPQRSTUVWXYZabcdefghijklmnopqrstuvwxyz0123456789+/"

// b64Text: lenient denotation of unpadded standard base64: CR/LF ignored, correct '='
// padding tolerated, trailing bits ignored. ok=false: the text denotes nothing.
func b64Text(s string) (out []byte, cls string, ok bool) {
	cls = "b64_plain"
	if strings.ContainsAny(s, "\r\n") {
		s = strings.NewReplacer("\r", "", "\n", "").Replace(s)
		cls = "b64_newline"
	}
	if strings.HasSuffix(s, "=") {
		t := strings.TrimRight(s, "=")
		if len(s)%4 != 0 || len(s)-len(t) > 2 {
			return nil, "b64_badpad", false
		}
		s = t
		cls = "b64_padded"
	}
	if len(s)%4 == 1 {
		return nil, "b64_badlen", false
	}
	var acc uint32
	nb := 0
	for i := 0; i < len(s); i++ {
		x := strings.IndexByte(b64alpha, s[i])
		if x < 0 {
			return nil, "b64_badchar", false
		}
		acc = acc<<6 | uint32(x)
		nb += 6
		if nb >= 8 {
			nb -= 8
			out = append(out, byte(acc>>uint(nb)))
			acc &= 1<<uint(nb) - 1
		}
	}
	if acc != 0 && cls == "b64_plain" {
		cls = "b64_trailbits"
	}
	return out, cls, true
}

// radixText: ^[+-]?(0[xX])?[digits]+$ in the given base (prefix only for base 16).
func radixText(s string, base int) (*big.Int, string, bool) {
	cls := "radix_plain"
	neg := false
	if s != "" && (s[0] == '+' || s[0] == '-') {
		neg = s[0] == '-'
		s = s[1:]
		cls = "radix_signed"
	}
	if base == 16 && len(s) > 2 && s[0] == '0' && (s[1] == 'x' || s[1] == 'X') {
		s = s[2:]
		cls = "radix_prefixed"
	}
	if s == "" {
		return nil, "radix_empty", false
	}
	v := new(big.Int)
	for i := 0; i < len(s); i++ {
		c := s[i]
		d := -1
		switch {
		case c >= '0' && c <= '9':
			d = int(c - '0')
		case c >= 'a' && c <= 'z':
			d = int(c-'a') + 10
		case c >= 'A' && c <= 'Z':
			d = int(c-'A') + 10
			if cls == "radix_plain" {
				cls = "radix_upper"
			}
		}
		if d < 0 || d >= base {
			return nil, "radix_junk", false
		}
		v.Mul(v, big.NewInt(int64(base)))
		v.Add(v, big.NewInt(int64(d)))
	}
	if neg {
		v.Neg(v)
	}
	return v, cls, true
}

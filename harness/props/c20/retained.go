package c20

import (
	"bytes"
	"math/rand"
	"runtime"
	"sync"

	"verifh/engine"

	"github.com/pinealctx/neptune/tex"
)

// rtRetainedCase: the bytes an encoder returned must still decode to the original value after
// further encoder calls (of any wrapper type) were made, sequentially and from other
// goroutines: "decoding the encoder's output gives back the original value" does not allow
// the output to change under the caller's feet (e.g. a token built in a recycled buffer).
func rtRetainedCase(k *engine.Case) {
	r := k.R
	type held struct {
		t    *jtype
		v    rtValue
		tok  []byte
		copy string
	}
	n := 2 + r.Intn(7)
	var hs []held
	for i := 0; i < n; i++ {
		t := jtypes[r.Intn(len(jtypes))]
		v := t.draw(r)
		tok, err := v.encode(direct)
		if err != nil {
			k.Evals(1)
			fail(k, "encode-error:"+t.name, "%s: MarshalJSON(%s) failed: %v", t.name, v.show, err)
			continue
		}
		hs = append(hs, held{t, v, tok, string(tok)}) // tok is kept as returned, not copied
	}
	for _, h := range hs {
		k.Count("retained_tokens_sequential", 1)
		if string(h.tok) != h.copy {
			k.Evals(1)
			fail(k, "encoder-output-changed:"+h.t.name, "%s: MarshalJSON(%s) returned %s, but after %d further MarshalJSON calls the returned bytes read %s", h.t.name, h.v.show, clip(h.copy), n, clip(string(h.tok)))
			continue
		}
		obs, err := h.v.decode(direct, h.tok)
		rtCheck(k, h.t.name, "direct-retained", h.v.show, h.v.want, h.tok, obs, err)
	}
	// decoded values are values too: one receiver variable is decoded into again and again (a
	// row variable in a loop) and the caller keeps what it got each time; a later decode into the
	// same variable must not change the earlier results
	{
		var jb tex.JsByte
		var bb tex.Base64Bytes
		type kept struct {
			what string
			got  []byte
			want []byte
		}
		var ks []kept
		for i, m := 0, 3+r.Intn(6); i < m; i++ {
			n := r.Intn(12)
			if len(ks) > 0 && r.Intn(2) == 0 {
				n = r.Intn(len(ks[len(ks)-1].want) + 1) // same length or shorter than the one before
			}
			v := make([]byte, n)
			r.Read(v)
			if r.Intn(2) == 0 {
				tok, err := tex.JsByte(v).MarshalJSON()
				if err != nil || jb.UnmarshalJSON(tok) != nil {
					continue
				}
				ks = append(ks, kept{"JsByte.UnmarshalJSON", jb, append([]byte(nil), v...)})
			} else {
				dv, err := tex.Base64Bytes(v).Value()
				if err != nil {
					continue
				}
				src := dv.(string)
				var serr error
				if r.Intn(2) == 0 {
					serr = bb.Scan(src)
				} else {
					serr = bb.Scan([]byte(src))
				}
				if serr != nil {
					continue
				}
				ks = append(ks, kept{"Base64Bytes.Scan", bb, append([]byte(nil), v...)})
			}
		}
		for i, x := range ks {
			k.Evals(1)
			k.Count("retained_decoded_values", 1)
			if !bytes.Equal(x.got, x.want) {
				fail(k, "decoded-value-changed:"+x.what, "%s: value #%d decoded into a reused receiver was %v; after %d later decodes into the same variable the kept value reads %v", x.what, i, x.want, len(ks)-1-i, x.got)
				break
			}
		}
	}
	// concurrent encoders: every goroutine keeps its token across yields, then decodes it
	workers := 2 + r.Intn(3)
	type res struct {
		h        held
		after    string
		obs      string
		err      error
		encodeOK bool
	}
	out := make([][]res, workers)
	seeds := make([]int64, workers)
	for i := range seeds {
		seeds[i] = r.Int63()
	}
	var wg sync.WaitGroup
	for w := 0; w < workers; w++ {
		w := w
		wg.Add(1)
		go func() {
			defer wg.Done()
			rr := rand.New(rand.NewSource(seeds[w]))
			for i := 0; i < 6; i++ {
				t := jtypes[rr.Intn(len(jtypes))]
				v := t.draw(rr)
				tok, err := v.encode(direct)
				if err != nil {
					continue
				}
				cp := string(tok)
				runtime.Gosched()
				runtime.Gosched()
				after := string(tok)
				obs, derr := v.decode(direct, tok)
				out[w] = append(out[w], res{held{t, v, tok, cp}, after, obs, derr, true})
			}
		}()
	}
	wg.Wait()
	for _, rs := range out {
		for _, x := range rs {
			k.Count("retained_tokens_concurrent", 1)
			if x.after != x.h.copy {
				k.Evals(1)
				fail(k, "encoder-output-changed:"+x.h.t.name, "%s: MarshalJSON(%s) returned %s, but while other goroutines were encoding the returned bytes became %s", x.h.t.name, x.h.v.show, clip(x.h.copy), clip(x.after))
				continue
			}
			rtCheck(k, x.h.t.name, "direct-retained-concurrent", x.h.v.show, x.h.v.want, []byte(x.h.copy), x.obs, x.err)
		}
	}
}

package c20

import (
	"math/rand"
	"runtime"
	"sync"

	"verifh/engine"
)

// rtRetainedCase: the bytes an encoder returned must still decode to the original value after
// further encoder calls (of any wrapper type) were made, sequentially and from other
// goroutines: "decoding the encoder's output gives back the original value" does not allow
// the output to change under the caller's feet (e.g. a token built in a recycled buffer).
func rtRetainedCase(k *engine.Case) {
	r := k.R
	type held struct {
		t    *jtype
		v    rtValue
		tok  []byte
		copy string
	}
	n := 2 + r.Intn(7)
	var hs []held
	for i := 0; i < n; i++ {
		t := jtypes[r.Intn(len(jtypes))]
		v := t.draw(r)
		tok, err := v.encode(direct)
		if err != nil {
			k.Evals(1)
			fail(k, "encode-error:"+t.name, "%s: MarshalJSON(%s) failed: %v", t.name, v.show, err)
			continue
		}
		hs = append(hs, held{t, v, tok, string(tok)}) // tok is kept as returned, not copied
	}
	for _, h := range hs {
		k.Count("retained_tokens_sequential", 1)
		if string(h.tok) != h.copy {
			k.Evals(1)
			fail(k, "encoder-output-changed:"+h.t.name, "%s: MarshalJSON(%s) returned %s, but after %d further MarshalJSON calls the returned bytes read %s", h.t.name, h.v.show, clip(h.copy), n, clip(string(h.tok)))
			continue
		}
		obs, err := h.v.decode(direct, h.tok)
		rtCheck(k, h.t.name, "direct-retained", h.v.show, h.v.want, h.tok, obs, err)
	}
	// concurrent encoders: every goroutine keeps its token across yields, then decodes it
	workers := 2 + r.Intn(3)
	type res struct {
		h        held
		after    string
		obs      string
		err      error
		encodeOK bool
	}
	out := make([][]res, workers)
	seeds := make([]int64, workers)
	for i := range seeds {
		seeds[i] = r.Int63()
	}
	var wg sync.WaitGroup
	for w := 0; w < workers; w++ {
		w := w
		wg.Add(1)
		go func() {
			defer wg.Done()
			rr := rand.New(rand.NewSource(seeds[w]))
			for i := 0; i < 6; i++ {
				t := jtypes[rr.Intn(len(jtypes))]
				v := t.draw(rr)
				tok, err := v.encode(direct)
				if err != nil {
					continue
				}
				cp := string(tok)
				runtime.Gosched()
				runtime.Gosched()
				after := string(tok)
				obs, derr := v.decode(direct, tok)
				out[w] = append(out[w], res{held{t, v, tok, cp}, after, obs, derr, true})
			}
		}()
	}
	wg.Wait()
	for _, rs := range out {
		for _, x := range rs {
			k.Count("retained_tokens_concurrent", 1)
			if x.after != x.h.copy {
				k.Evals(1)
				fail(k, "encoder-output-changed:"+x.h.t.name, "%s: MarshalJSON(%s) returned %s, but while other goroutines were encoding the returned bytes became %s", x.h.t.name, x.h.v.show, clip(x.h.copy), clip(x.after))
				continue
			}
			rtCheck(k, x.h.t.name, "direct-retained-concurrent", x.h.v.show, x.h.v.want, []byte(x.h.copy), x.obs, x.err)
		}
	}
}

package c20

// Seed-determined generators with boundary bias. Everything is a pure function of the
// *rand.Rand handed in.

import (
	"fmt"
	"math"
	"math/big"
	"math/rand"
	"strings"
	"time"
)

var i64Edges = []int64{0, 1, -1, 2, 9, 10, 99, 100, 127, 128, 255, 256, math.MaxInt32, math.MinInt32,
	math.MaxInt32 + 1, math.MaxUint32, math.MaxUint32 + 1, 1 << 53, 1<<53 + 1, -(1 << 53) - 1,
	math.MaxInt64, math.MaxInt64 - 1, math.MinInt64, math.MinInt64 + 1,
	999999999, 1000000000, 1000000001, 999999999999999999, 1000000000000000000}

func genI64(r *rand.Rand) int64 {
	switch r.Intn(10) {
	case 0, 1, 2:
		return i64Edges[r.Intn(len(i64Edges))]
	case 3:
		return i64Edges[r.Intn(len(i64Edges))] + int64(r.Intn(5)-2) // may wrap: still an int64
	case 4:
		return int64(r.Intn(2001) - 1000)
	default:
		// uniform bit length
		n := uint(r.Intn(64))
		v := int64(r.Uint64() >> (63 - n) >> 1)
		if n == 63 {
			v = int64(r.Uint64() >> 1)
		}
		if r.Intn(2) == 0 {
			v = -v
		}
		return v
	}
}

var u64Edges = []uint64{0, 1, 2, 9, 10, 99, 100, 255, 256, math.MaxUint32, math.MaxUint32 + 1, 1 << 53,
	math.MaxInt64, 1 << 63, 1<<63 + 1, math.MaxUint64, math.MaxUint64 - 1, 9999999999999999999, 10000000000000000000}

func genU64(r *rand.Rand) uint64 {
	switch r.Intn(10) {
	case 0, 1, 2:
		return u64Edges[r.Intn(len(u64Edges))]
	case 3:
		return u64Edges[r.Intn(len(u64Edges))] + uint64(r.Intn(5)) - 2
	case 4:
		return uint64(r.Intn(1000))
	default:
		n := uint(r.Intn(64)) + 1
		return r.Uint64() >> (64 - n)
	}
}

// genBig: an integer near one of the representation boundaries, or random digits.
func genBig(r *rand.Rand) *big.Int {
	one := big.NewInt(1)
	switch r.Intn(10) {
	case 0, 1, 2, 3:
		sh := []uint{0, 7, 8, 15, 16, 31, 32, 53, 63, 64, 65, 80}[r.Intn(12)]
		v := new(big.Int).Lsh(one, sh)
		v.Add(v, big.NewInt(int64(r.Intn(7)-3)))
		if r.Intn(2) == 0 {
			v.Neg(v)
		}
		return v
	case 4:
		v := new(big.Int).Exp(big.NewInt(10), big.NewInt(int64(r.Intn(25))), nil)
		v.Add(v, big.NewInt(int64(r.Intn(3)-1)))
		if r.Intn(2) == 0 {
			v.Neg(v)
		}
		return v
	case 5:
		return big.NewInt(int64(r.Intn(600) - 100))
	case 6:
		return big.NewInt(genI64(r))
	case 7:
		return new(big.Int).SetUint64(genU64(r))
	default:
		n := 1 + r.Intn(25)
		var sb strings.Builder
		sb.WriteByte(byte('1' + r.Intn(9)))
		for i := 1; i < n; i++ {
			sb.WriteByte(byte('0' + r.Intn(10)))
		}
		v, _ := new(big.Int).SetString(sb.String(), 10)
		if r.Intn(3) == 0 {
			v.Neg(v)
		}
		return v
	}
}

// junk that may stand inside a JSON string unescaped
var junkBits = []string{"a", "x", "abc", "e", "e3", ".", ".0", ".5", ",", "_", "_000", "/", "-", "+", "#", "L", "n", "１", "é", " 1", "0x", "'", "}", "]", ":", "ns", "s"}

func pick(r *rand.Rand, xs []string) string { return xs[r.Intn(len(xs))] }

func blank(r *rand.Rand) string {
	return []string{" ", " ", "  ", "\t", " \n"}[r.Intn(5)]
}

// genQuotedDec: a JSON string whose content is a (possibly decorated) decimal integer.
func genQuotedDec(r *rand.Rand) []byte {
	v := genBig(r)
	body := new(big.Int).Abs(v).String()
	sign := ""
	if v.Sign() < 0 {
		sign = "-"
	}
	if r.Intn(12) == 0 {
		sign = "+"
		if r.Intn(8) == 0 {
			sign = []string{"--", "+-", "-+", "++"}[r.Intn(4)]
		}
	}
	if r.Intn(6) == 0 {
		body = strings.Repeat("0", 1+r.Intn(4)*r.Intn(6)) + body
	}
	s := sign + body
	if r.Intn(10) == 0 {
		// junk: trailing, leading or inner
		j := pick(r, junkBits)
		switch r.Intn(4) {
		case 0:
			s = j + s
		case 1:
			p := r.Intn(len(s) + 1)
			s = s[:p] + j + s[p:]
		default:
			s += j
		}
	}
	if r.Intn(12) == 0 {
		s = blank(r) + s
	}
	if r.Intn(12) == 0 {
		s += blank(r)
	}
	return quoteJSON(s)
}

// quoteJSON writes s as a well-formed JSON string token with minimal escaping (only
// what the grammar forces: quote, backslash, control characters).
func quoteJSON(s string) []byte {
	out := make([]byte, 0, len(s)+2)
	out = append(out, '"')
	for i := 0; i < len(s); i++ {
		c := s[i]
		switch {
		case c == '"' || c == '\\':
			out = append(out, '\\', c)
		case c == '\n':
			out = append(out, '\\', 'n')
		case c == '\t':
			out = append(out, '\\', 't')
		case c == '\r':
			out = append(out, '\\', 'r')
		case c < 0x20:
			out = append(out, []byte(fmt.Sprintf("\\u%04x", c))...)
		default:
			out = append(out, c)
		}
	}
	return append(out, '"')
}

var quotedSpecials = []string{`""`, `" "`, `"-"`, `"+"`, `"0"`, `"-0"`, `"+0"`, `"00"`, `"1"`, `"9"`, `"12"`, `"-1"`, `"--1"`,
	`"12"`, `"12\n"`, `"\t12"`, `"10"`, `"-5"`, `"12\\"`, `"\"12\""`, `"1\/2"`, `"0x10"`, `"010"`, `"1_0"`, `"1e3"`, `"1.0"`,
	`"null"`, `"true"`, `"NaN"`, `"９"`, `"9223372036854775807"`, `"9223372036854775808"`, `"-9223372036854775808"`,
	`"-9223372036854775809"`, `"18446744073709551615"`, `"18446744073709551616"`}

// genBareNum: a well-formed JSON number.
func genBareNum(r *rand.Rand) []byte {
	if r.Intn(8) == 0 {
		return []byte([]string{"0", "-0", "1", "5", "9", "12", "99", "-1", "-9", "10", "255", "256", "100", "123", "-123", "0.0", "1.5", "1e0", "1e1", "2E2", "-0.0", "0e0", "1e-1", "12.50e1"}[r.Intn(24)])
	}
	v := genBig(r)
	s := v.String()
	switch r.Intn(8) {
	case 0:
		s += []string{".0", ".00", ".5", ".000001", ".25"}[r.Intn(5)]
	case 1:
		s += []string{"e0", "E0", "e1", "e+2", "E+3", "e-1", "e-2", "e10", "e-0", "e18", "e19"}[r.Intn(11)]
	case 2:
		s += []string{".0e1", ".5e1", ".50e2", ".5e0", ".125e3"}[r.Intn(5)]
	}
	return []byte(s)
}

func genLiteral(r *rand.Rand) []byte {
	return []byte([]string{"null", "null", "true", "false"}[r.Intn(4)])
}

// genIntToken draws from the grammar of the property for the decimal integer types.
func genIntToken(r *rand.Rand) []byte {
	switch x := r.Intn(20); {
	case x < 9:
		return genQuotedDec(r)
	case x < 11:
		return []byte(pick(r, quotedSpecials))
	case x < 19:
		return genBareNum(r)
	default:
		return genLiteral(r)
	}
}

var byteElems = []string{"0", "1", "9", "10", "99", "100", "127", "128", "254", "255", "256", "257", "300", "511", "512", "1000",
	"65535", "65536", "65537", "65791", "4294967296", "4294967297", "18446744073709551616", "18446744073709551617", "9223372036854775807", "-1", "-0", "-255", "-256", "+5", "+255", "+256", "007", "0255", "0256", "00"}

func genByteElem(r *rand.Rand) string {
	switch x := r.Intn(20); {
	case x < 9:
		return fmt.Sprint(r.Intn(256))
	case x < 17:
		return pick(r, byteElems)
	case x < 18:
		return fmt.Sprint(256*(1+r.Intn(1<<20)) + r.Intn(256)) // wraps onto a legal byte
	default:
		return []string{"", " 5", "5 ", "a", "1a", "0x1", "1.0", "1e1", "１"}[r.Intn(9)]
	}
}

func genByteListText(r *rand.Rand) string {
	n := []int{0, 1, 1, 2, 2, 3, 3, 4, 5, 8}[r.Intn(10)]
	if r.Intn(40) == 0 {
		n = 20 + r.Intn(40)
	}
	parts := make([]string, n)
	for i := range parts {
		parts[i] = genByteElem(r)
		if n > 8 {
			parts[i] = fmt.Sprint(r.Intn(256))
		}
	}
	sep := "/"
	if r.Intn(30) == 0 {
		sep = []string{",", "//", " / ", "\\", ";"}[r.Intn(5)]
	}
	s := strings.Join(parts, sep)
	if r.Intn(25) == 0 {
		s += "/"
	}
	if r.Intn(25) == 0 {
		s = "/" + s
	}
	return s
}

func genByteToken(r *rand.Rand) []byte {
	switch x := r.Intn(20); {
	case x < 14:
		return quoteJSON(genByteListText(r))
	case x < 15:
		return []byte(pick(r, quotedSpecials))
	case x < 19:
		return genBareNum(r)
	default:
		return genLiteral(r)
	}
}

var durUnitNames = []string{"ns", "us", "µs", "μs", "ms", "s", "m", "h"}
var durFracMax = map[string]int{"ns": 0, "us": 3, "µs": 3, "μs": 3, "ms": 6, "s": 9, "m": 9, "h": 9}

var durEdges = []int64{0, 1, -1, 999, 1000, 1001, 999999, 1000000, 999999999, 1000000000, 1000000001, 59999999999, 60000000000,
	3599999999999, 3600000000000, 3600000000001, math.MaxInt64, math.MaxInt64 - 1, math.MinInt64, math.MinInt64 + 1, 1 << 53, -(1 << 62)}

func genDur(r *rand.Rand) time.Duration {
	switch r.Intn(10) {
	case 0, 1, 2:
		return time.Duration(durEdges[r.Intn(len(durEdges))])
	case 3:
		return time.Duration(r.Intn(100)-50) * []time.Duration{time.Nanosecond, time.Microsecond, time.Millisecond, time.Second, time.Minute, time.Hour}[r.Intn(6)]
	default:
		return time.Duration(genI64(r))
	}
}

func genDurTerm(r *rand.Rand, allowSub bool) string {
	u := pick(r, durUnitNames)
	ip := fmt.Sprint(r.Intn(1000))
	switch r.Intn(8) {
	case 0:
		ip = genBig(r).Abs(genBig(r)).String()
	case 1:
		ip = "0" + ip
	case 2:
		ip = fmt.Sprint(r.Int63n(1 << 40))
	}
	fp := ""
	if r.Intn(3) == 0 {
		max := durFracMax[u]
		if allowSub {
			max += 1 + r.Intn(4)
		}
		if max > 0 {
			n := 1 + r.Intn(max)
			var sb strings.Builder
			for i := 0; i < n; i++ {
				sb.WriteByte(byte('0' + r.Intn(10)))
			}
			fp = "." + sb.String()
		} else if r.Intn(2) == 0 {
			fp = "."
		}
		if r.Intn(10) == 0 {
			ip = ""
			if fp == "." || fp == "" {
				fp = ".5"
				if durFracMax[u] == 0 {
					ip, fp = "5", ""
				}
			}
		}
	}
	return ip + fp + u
}

func genDurText(r *rand.Rand) string {
	switch x := r.Intn(20); {
	case x < 6:
		// the encoder's form of a boundary value, sometimes nudged in its last digit
		s := genDur(r).String()
		if r.Intn(3) == 0 {
			for i := len(s) - 1; i >= 0; i-- {
				if s[i] >= '0' && s[i] <= '9' {
					s = s[:i] + string(byte('0'+r.Intn(10))) + s[i+1:]
					break
				}
			}
		}
		if r.Intn(10) == 0 {
			s = "+" + strings.TrimPrefix(s, "-")
		}
		return s
	case x < 14:
		n := 1 + r.Intn(3)
		var sb strings.Builder
		if r.Intn(4) == 0 {
			sb.WriteString([]string{"-", "+"}[r.Intn(2)])
		}
		sub := r.Intn(6) == 0
		for i := 0; i < n; i++ {
			sb.WriteString(genDurTerm(r, sub))
		}
		return sb.String()
	case x < 16:
		return []string{"", "0", "-0", "+0", "5", "100", "-5", "1", "12", "s", "1 s", " 1s", "1s ", "1d", "1sec", "1h1", ".s", "-.s", "1..s", "1e3s", "0x1s", "1S", "1H",
			"2562047h47m16.854775807s", "2562047h47m16.854775808s", "-2562047h47m16.854775808s", "-2562047h47m16.854775809s",
			"9223372036854775807ns", "9223372036854775808ns", "-9223372036854775808ns", "2562048h", "153722867m", "153722868m", "9223372036.854775807s", "9223372036.854775808s"}[r.Intn(35)]
	case x < 18:
		s := genDur(r).String()
		j := pick(r, junkBits)
		if r.Intn(2) == 0 {
			return s + j
		}
		p := r.Intn(len(s) + 1)
		return s[:p] + j + s[p:]
	default:
		return blank(r) + genDur(r).String() + blank(r)
	}
}

func genDurToken(r *rand.Rand) []byte {
	switch x := r.Intn(20); {
	case x < 14:
		return quoteJSON(genDurText(r))
	case x < 15:
		return []byte(pick(r, quotedSpecials))
	case x < 19:
		return genBareNum(r)
	default:
		return genLiteral(r)
	}
}

func genBytes(r *rand.Rand) []byte {
	n := []int{0, 0, 1, 1, 2, 3, 4, 5, 6, 7, 8, 16, 31, 32, 33}[r.Intn(15)]
	if r.Intn(20) == 0 {
		n = r.Intn(300)
	}
	if n == 0 && r.Intn(2) == 0 {
		return nil
	}
	b := make([]byte, n)
	switch r.Intn(4) {
	case 0:
		for i := range b {
			b[i] = []byte{0, 255, 1, 254, 127, 128}[r.Intn(6)]
		}
	default:
		r.Read(b)
	}
	return b
}

// genTime: whole range in which UnixNano is defined, plus (for second precision) far years.
func genTimeNano(r *rand.Rand) time.Time {
	return time.Unix(0, genI64(r))
}

func genTimeSec(r *rand.Rand) time.Time {
	const minS, maxS = -62135596800, 253402300799 // years 1 .. 9999
	var s int64
	switch r.Intn(6) {
	case 0:
		s = []int64{0, 1, -1, minS, maxS, math.MaxInt32, math.MaxInt32 + 1, math.MaxUint32 + 1, 1700000000}[r.Intn(9)]
	case 1:
		s = minS + r.Int63n(maxS-minS+1)
	default:
		s = genI64(r) % (maxS + 1)
		if s < minS {
			s = minS
		}
	}
	ns := int64(0)
	if r.Intn(2) == 0 {
		ns = r.Int63n(1e9)
	}
	return time.Unix(s, ns)
}

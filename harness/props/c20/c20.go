// Package c20 monitors the tex scalar wrappers: text/SQL forms round-trip and a decoder
// given any well-formed JSON scalar token either fails or yields exactly the value the
// token denotes (oracle: math/big denotation, see oracle.go).
package c20

import (
	"bytes"
	"fmt"
	"math/big"
	"math/rand"
	"strings"
	"sync"
	"time"

	"verifh/engine"

	"github.com/pinealctx/neptune/tex"
)

// Prop is the C20 check.
var Prop = &engine.Prop{
	ID:    "C20",
	Level: "exploration",
	Rule: "inputs are seed-generated: (1) values of every wrapper type (extremes of int64/uint64/duration, empty and 1-element byte lists, times with and without sub-second part) " +
		"encoded and decoded by direct method calls, through encoding/json and both jsoniter configurations of jsonx (struct field, slice, pointer, map), through SQL Value/Scan and the hex/base-32 helpers; " +
		"(2) well-formed JSON scalar tokens drawn from the grammar of the property (quoted decimal with sign / leading zeros / blanks / junk / empty, 1-25 digits biased to the 2^63, 2^64, 255/256 boundaries; " +
		"bare numbers with fraction and exponent; null/true/false; slash lists; duration texts) given to UnmarshalJSON directly and inside documents. " +
		"Every input that reaches a decoder is non-trivial; distinct = distinct (type, input text) pairs, whatever the route; evaluations = decoder or codec invocations judged",
	Assumptions: []string{
		"math/big arithmetic, encoding/json string unquoting and time.Duration.String are the trusted base of the oracle",
		"domain: well-formed JSON scalar tokens only (what encoding/json and jsoniter hand to UnmarshalJSON); malformed bytes are never passed to a decoder directly",
		"an error is always an acceptable outcome except for the encoder's own output; blanks around a number, '+', leading zeros, integral fractions/exponents, a bare number for Duration (ns) or JsByte (one element), and base64 padding/newlines are judged 'error or the denoted value'",
		"the empty quoted string is judged 'error or 0' (JsInt64 convention); null is judged 'error, untouched or zero value'",
		"JsUnixTime/Unix2Time carry whole seconds: the round trip is required to give back the unix second, not the sub-second part",
		"SQL Scan is exercised only with the Go types the Scan methods name (integers in int64 range, time.Time, string/[]byte); other driver types are outside the property's quantifier",
	},
	ShardsQuick: 12, ShardsThorough: 16,
	Kinds: []engine.Kind{
		// must stay first: its first case in a process makes the first encoder calls of that process
		{Name: "cold_start", Quick: 32, Thorough: 64, Fn: coldStartCase},
		{Name: "rt_direct", Quick: 1200, Thorough: 360000, Fn: rtDirectCase},
		{Name: "rt_retained", Quick: 1500, Thorough: 150000, Fn: rtRetainedCase},
		{Name: "rt_json", Quick: 1200, Thorough: 360000, Fn: rtJSONCase},
		{Name: "rt_sql", Quick: 800, Thorough: 240000, Fn: rtSQLCase},
		{Name: "hex", Quick: 800, Thorough: 240000, Fn: hexCase},
		{Name: "tok_direct", Quick: 3000, Thorough: 900000, Fn: tokDirectCase},
		{Name: "tok_json", Quick: 2400, Thorough: 720000, Fn: tokJSONCase},
	},
	Floors: floors,
}

// ---------------------------------------------------------------- judging

func has(xs []string, x string) bool {
	for _, y := range xs {
		if x == y {
			return true
		}
	}
	return false
}

func group(class string) string {
	if strings.HasPrefix(class, "list_") || strings.HasPrefix(class, "b64_") || strings.HasPrefix(class, "radix_") {
		return class
	}
	if i := strings.IndexByte(class, '_'); i > 0 {
		return class[:i]
	}
	return class
}

func clip(s string) string {
	if len(s) > 120 {
		return s[:117] + "..."
	}
	return s
}

// The engine keeps the first 40 violations of a child; one defect of the tree produces
// thousands. So that every witness class gets a VIOLATION line, only the first few
// violations of a class are handed to the engine per process; the rest are counted.
// (Reporting only: the verdict of a case never depends on this state, and a replay
// starts from an empty table.)
var (
	failMu   sync.Mutex
	failSeen = map[string]int{}
)

func fail(k *engine.Case, class, format string, a ...any) {
	failMu.Lock()
	failSeen[class]++
	n := failSeen[class]
	failMu.Unlock()
	if n > 3 {
		k.Count("violations_not_listed_individually", 1)
		return
	}
	k.Fail(class, format, a...)
}

// judge applies the exact-or-error oracle to one decoder outcome.
func judge(k *engine.Case, typ, route string, sp spec, input, obs string, err error) {
	k.Evals(1)
	k.Nontrivial()
	k.Distinct(engine.HashStr(typ + "\x00" + input))
	k.Count("type."+typ, 1)
	k.Count("route."+route, 1)
	k.Count("in."+sp.class, 1) // presented to a decoder (whatever it answered)
	if err != nil {
		k.Count("outcome.error", 1)
		k.Logf("%s %s <- %s => error %q", typ, route, clip(input), clip(err.Error()))
		if sp.required {
			fail(k, "rejects-own-encoding:"+typ, "%s via %s: %s is the encoder's own form of %v but decoding failed: %v", typ, route, clip(input), sp.accepted, err)
		}
		return
	}
	k.Logf("%s %s <- %s => %s   (acceptable: %v)", typ, route, clip(input), clip(obs), sp.accepted)
	if !has(sp.accepted, obs) {
		k.Count("outcome.misdecode", 1)
		want := "an error (the token denotes no value of the type)"
		if len(sp.accepted) > 0 {
			want = fmt.Sprintf("an error or one of %v", sp.accepted)
		}
		fail(k, "misdecode:"+typ+":"+group(sp.class), "%s via %s: input %s (class %s) decoded without error to %s; the property allows %s",
			typ, route, clip(input), sp.class, clip(obs), want)
		return
	}
	k.Count("exact."+sp.class, 1) // decoded to exactly the denoted value (in - exact = rejected)
	k.Count("outcome.exact", 1)
	if sp.required {
		k.Count("outcome.own_encoding_decoded", 1)
	}
}

// ---------------------------------------------------------------- clause 1: round trips

// rtCheck judges one encode→decode round trip.
func rtCheck(k *engine.Case, typ, route, show, want string, data []byte, obs string, err error) {
	k.Evals(1)
	k.Nontrivial()
	k.Distinct(engine.HashStr("rt\x00" + typ + "\x00" + show))
	k.Count("rt."+typ, 1)
	k.Count("rt.route."+route, 1)
	if err != nil {
		k.Logf("rt %s %s: %s -> %s -> error %q", typ, route, clip(show), clip(string(data)), err.Error())
		fail(k, "roundtrip-error:"+typ, "%s via %s: value %s encodes to %s which fails to decode: %v", typ, route, clip(show), clip(string(data)), err)
		return
	}
	k.Logf("rt %s %s: %s -> %s -> %s", typ, route, clip(show), clip(string(data)), clip(obs))
	if obs != want {
		fail(k, "roundtrip-mismatch:"+typ, "%s via %s: value %s (expect %s) encodes to %s and decodes to %s", typ, route, clip(show), clip(want), clip(string(data)), clip(obs))
		return
	}
	k.Count("rt.ok", 1)
}

func rtDirectCase(k *engine.Case) {
	r := k.R
	for _, t := range jtypes {
		for i := 0; i < 6; i++ {
			v := t.draw(r)
			tok, err := v.encode(direct)
			if err != nil {
				k.Evals(1)
				fail(k, "encode-error:"+t.name, "%s: MarshalJSON(%s) failed: %v", t.name, v.show, err)
				continue
			}
			// the encoder's text must denote the value (independent of the decoder)
			sp := t.spec(tok)
			if !has(sp.accepted, v.want) {
				fail(k, "encoder-denotes-other:"+t.name, "%s: MarshalJSON(%s) = %s which denotes %v (class %s), expected %s", t.name, v.show, clip(string(tok)), sp.accepted, sp.class, v.want)
			} else {
				k.Count("enc.denotes_value", 1)
			}
			if t.quoted3 {
				if !sp.required {
					fail(k, "encoder-not-quoted-decimal:"+t.name, "%s: MarshalJSON(%s) = %s is not the quoted decimal form", t.name, v.show, clip(string(tok)))
				} else {
					k.Count("enc.quoted_decimal", 1)
				}
			}
			obs, err := v.decode(direct, tok)
			rtCheck(k, t.name, "direct", v.show, v.want, tok, obs, err)
		}
	}
	// JsByte text helpers
	for i := 0; i < 6; i++ {
		b := tex.JsByte(genBytes(r))
		want := obsBytes(b)
		s := b.ToString()
		js := string(b.ToJS())
		if s != js {
			fail(k, "jsbyte-tostring-tojs-differ", "JsByte%v: ToString=%q ToJS=%q", []byte(b), s, js)
		}
		if sp := textByteSpec(s); !has(sp.accepted, want) {
			fail(k, "encoder-denotes-other:JsByte.ToString", "JsByte%v.ToString() = %q denotes %v", []byte(b), clip(s), sp.accepted)
		}
		out := tex.JsByte{9, 9, 9}
		err := out.FromString(s)
		rtCheck(k, "JsByte.FromString", "text", "["+want+"]", want, []byte(s), obsBytes(out), err)
	}
	// Duration TOML
	for i := 0; i < 6; i++ {
		d := genDur(r)
		out := tex.Duration(777)
		if d == 777 {
			out = 778
		}
		s := d.String()
		err := out.UnmarshalTOML(s)
		rtCheck(k, "Duration.UnmarshalTOML", "text", s, i64s(int64(d)), []byte(s), i64s(int64(out)), err)
		if got := tex.Duration(d).Duration(); got != d {
			fail(k, "duration-accessor", "Duration(%d).Duration() = %d", d, got)
		}
	}
}

func rtJSONCase(k *engine.Case) {
	r := k.R
	for _, t := range jtypes {
		for i := 0; i < 3; i++ {
			v := t.draw(r)
			enc, dec := r.Intn(len(libs)), r.Intn(len(libs))
			route := libs[enc].name + ">" + libs[dec].name
			doc, err := v.encode(enc)
			if err != nil {
				k.Evals(1)
				fail(k, "encode-error:"+t.name, "%s: %s.Marshal({V:%s}) failed: %v", t.name, libs[enc].name, v.show, err)
				continue
			}
			obs, err := v.decode(dec, doc)
			rtCheck(k, t.name, route, v.show, v.want, doc, obs, err)
		}
		// containers: slice, pointer, map value
		v := t.draw(r)
		enc, dec := r.Intn(len(libs)), r.Intn(len(libs))
		route := "containers:" + libs[enc].name + ">" + libs[dec].name
		doc, err := v.encC(enc)
		if err != nil {
			k.Evals(1)
			fail(k, "encode-error:"+t.name, "%s: %s.Marshal(containers of %s) failed: %v", t.name, libs[enc].name, v.show, err)
			continue
		}
		got, err := v.decC(dec, doc)
		all := strings.Join(got, ",")
		want := strings.Join([]string{v.want, v.want, v.want, v.want}, ",")
		rtCheck(k, t.name, route, v.show, want, doc, all, err)
	}
}

// ---------------------------------------------------------------- SQL Value -> Scan

func sqlCheck(k *engine.Case, typ, show string, ok bool, format string, a ...any) {
	k.Evals(1)
	k.Nontrivial()
	k.Distinct(engine.HashStr("sql\x00" + typ + "\x00" + show))
	k.Count("sql."+typ, 1)
	k.Logf("sql %s %s: %s", typ, show, fmt.Sprintf(format, a...))
	if !ok {
		fail(k, "sql-roundtrip:"+typ, "%s %s: %s", typ, show, fmt.Sprintf(format, a...))
	}
}

// scanInts: the other integer types a Scan method names must give the same instant
// (or an error); only values representable in that type are offered.
func intVariants(v int64) []any {
	out := []any{v, int(v)}
	if v >= 0 {
		out = append(out, uint64(v), uint(v))
	}
	if v == int64(int32(v)) {
		out = append(out, int32(v))
	}
	if v == int64(uint32(v)) {
		out = append(out, uint32(v))
	}
	return out
}

func rtSQLCase(k *engine.Case) {
	r := k.R
	// the SQL forms are instants: the round trip must not depend on the zone the process runs
	// in. One case in three runs with another local zone (restored afterwards; cases of a child
	// run one after the other).
	if r.Intn(3) == 0 {
		oldLocal := time.Local
		z := []*time.Location{time.FixedZone("UTC+8", 8*3600), time.FixedZone("UTC-5", -5*3600), time.FixedZone("UTC+5:30", 19800), time.FixedZone("UTC-9:30", -34200)}[r.Intn(4)]
		time.Local = z
		defer func() { time.Local = oldLocal }()
		k.Logf("process-local zone for this case: %s", z)
		k.Count("sql_cases_with_non_utc_local_zone", 1)
	}
	for i := 0; i < 6; i++ {
		// UnixNano2Time
		t := genTimeNano(r)
		if i == 5 {
			t = time.Unix(0, r.Int63n(1<<32)*int64(1-2*r.Intn(2))) // small enough for the 32-bit variants
		}
		dv, err := tex.UnixNano2Time(t).Value()
		n, isInt := dv.(int64)
		sqlCheck(k, "UnixNano2Time.Value", i64s(t.UnixNano()), err == nil && isInt && n == t.UnixNano(), "Value() = %v (%T), err=%v", dv, dv, err)
		if isInt {
			for _, x := range intVariants(n) {
				s := tex.UnixNano2Time(time.Unix(0, 777))
				err := s.Scan(x)
				sqlCheck(k, "UnixNano2Time.Scan", fmt.Sprintf("%T(%v)", x, x), err != nil || time.Time(s).Equal(t), "Scan gives %s err=%v, original %s",
					time.Time(s).UTC().Format(time.RFC3339Nano), err, t.UTC().Format(time.RFC3339Nano))
				if _, same := x.(int64); same && err != nil {
					fail(k, "sql-roundtrip:UnixNano2Time.Scan", "Scan rejects its own Value() %v: %v", x, err)
				}
			}
		}
		// Unix2Time
		t2 := genTimeSec(r)
		if i == 5 {
			t2 = time.Unix(r.Int63n(1<<32)*int64(1-2*r.Intn(2)), int64(r.Intn(1e9)))
		}
		dv, err = tex.Unix2Time(t2).Value()
		n, isInt = dv.(int64)
		sqlCheck(k, "Unix2Time.Value", i64s(t2.Unix()), err == nil && isInt && n == t2.Unix(), "Value() = %v (%T), err=%v", dv, dv, err)
		if isInt {
			for _, x := range intVariants(n) {
				s := tex.Unix2Time(time.Unix(777, 0))
				err := s.Scan(x)
				sqlCheck(k, "Unix2Time.Scan", fmt.Sprintf("%T(%v)", x, x), err != nil || obsSec(time.Time(s)) == i64s(t2.Unix()), "Scan gives unix %s err=%v, original unix %d",
					obsSec(time.Time(s)), err, t2.Unix())
				if _, same := x.(int64); same && err != nil {
					fail(k, "sql-roundtrip:Unix2Time.Scan", "Scan rejects its own Value() %v: %v", x, err)
				}
			}
		}
		// UnixStamp / SQLTime2Unix: int64 second stamp <-> time.Time column
		v := genI64(r)
		dv, err = tex.UnixStamp(v).Value()
		tv, isTime := dv.(time.Time)
		sqlCheck(k, "UnixStamp.Value", i64s(v), err == nil && isTime && obsSec(tv) == i64s(v), "Value() = %v (%T), err=%v", dv, dv, err)
		if isTime {
			s := tex.UnixStamp(777)
			if v == 777 {
				s = 778
			}
			err := s.Scan(tv)
			sqlCheck(k, "UnixStamp.Scan", i64s(v), err == nil && int64(s) == v, "Scan(Value()) = %d err=%v", int64(s), err)
		}
		dv, err = tex.SQLTime2Unix(v).Value()
		tv, isTime = dv.(time.Time)
		sqlCheck(k, "SQLTime2Unix.Value", i64s(v), err == nil && isTime && obsSec(tv) == i64s(v), "Value() = %v (%T), err=%v", dv, dv, err)
		if isTime {
			s := tex.SQLTime2Unix(777)
			if v == 777 {
				s = 778
			}
			err := s.Scan(tv)
			sqlCheck(k, "SQLTime2Unix.Scan", i64s(v), err == nil && int64(s) == v, "Scan(Value()) = %d err=%v", int64(s), err)
		}
	}
	// Base64Bytes
	for i := 0; i < 8; i++ {
		b := genBytes(r)
		dv, err := tex.Base64Bytes(b).Value()
		s, isStr := dv.(string)
		den, _, denOK := b64Text(s)
		sqlCheck(k, "Base64Bytes.Value", fmt.Sprintf("%x", b), err == nil && isStr && denOK && bytes.Equal(den, b), "Value() = %q err=%v", clip(s), err)
		if !isStr {
			continue
		}
		for _, in := range []any{s, []byte(s)} {
			out := tex.Base64Bytes{9, 9, 9}
			err := out.Scan(in)
			sqlCheck(k, "Base64Bytes.Scan", fmt.Sprintf("%T %s", in, s), err == nil && bytes.Equal(out, b), "Scan(Value()) = %x err=%v, original %x", []byte(out), err, b)
			// database/sql hands Scan a []byte that is only valid during the call and is reused
			// for the next row: the scanned value must not alias it, and Scan must not write into it
			if raw, ok := in.([]byte); ok && err == nil && len(b) > 0 {
				k.Count("sql.scan_bytes_buffer_reuse_checked", 1)
				if string(raw) != s {
					sqlCheck(k, "Base64Bytes.Scan", fmt.Sprintf("[]byte %s", s), false, "Scan wrote into the driver's buffer: it now reads %q", clip(string(raw)))
				}
				for j := range raw {
					raw[j] = 'A' // the driver reuses its buffer for the next row
				}
				sqlCheck(k, "Base64Bytes.Scan", fmt.Sprintf("[]byte %s (buffer reused afterwards)", s), bytes.Equal(out, b), "after the driver buffer was reused the scanned value reads %x, original %x", []byte(out), b)
			}
		}
		// any other text: error or the bytes it denotes
		txt := mutateB64(r, s)
		want, cls, ok := b64Text(txt)
		sp := spec{class: cls, required: txt == s}
		if ok {
			sp.accepted = []string{fmt.Sprintf("%x", want)}
		}
		out := tex.Base64Bytes{9, 9, 9}
		var in any = txt
		if r.Intn(2) == 0 {
			in = []byte(txt)
		}
		err = out.Scan(in)
		judge(k, "Base64Bytes.Scan", fmt.Sprintf("%T", in), sp, fmt.Sprintf("%q", txt), fmt.Sprintf("%x", []byte(out)), err)
	}
	// blobs: a column of this type holds whole files, not only short tokens
	if r.Intn(4) == 0 {
		n := []int{4095, 4096, 4097, 4098, 8191, 8192, 8193, 12289, 65536, 65537, 100000 + r.Intn(9), 1 << 20}[r.Intn(12)]
		b := make([]byte, n)
		r.Read(b)
		what := fmt.Sprintf("%d random bytes %x...", n, b[:8])
		dv, err := tex.Base64Bytes(b).Value()
		s, isStr := dv.(string)
		den, _, denOK := b64Text(s)
		sqlCheck(k, "Base64Bytes.Value", what, err == nil && isStr && denOK && bytes.Equal(den, b), "Value() = %q (%d characters) err=%v: that text does not denote the original bytes", clip(s), len(s), err)
		if isStr {
			for _, in := range []any{s, []byte(s)} {
				out := tex.Base64Bytes{9, 9, 9}
				err := out.Scan(in)
				sqlCheck(k, "Base64Bytes.Scan", fmt.Sprintf("%T Value() of %s", in, what), err == nil && bytes.Equal(out, b), "Scan(Value()) = %d bytes %s err=%v", len(out), clip(fmt.Sprintf("%x", []byte(out))), err)
			}
		}
		k.Count("sql.base64_blobs", 1)
	}
}

func mutateB64(r *rand.Rand, s string) string {
	switch r.Intn(10) {
	case 0:
		return s
	case 1:
		return s + strings.Repeat("=", (4-len(s)%4)%4)
	case 2:
		return s + "="
	case 3:
		if len(s) > 0 {
			return s[:len(s)-1]
		}
		return "A"
	case 4:
		return s + string(b64alpha[r.Intn(64)])
	case 5:
		p := r.Intn(len(s) + 1)
		return s[:p] + []string{"-", "_", " ", "*", "é", ".", "=", "\x00"}[r.Intn(8)] + s[p:]
	case 6:
		p := r.Intn(len(s) + 1)
		return s[:p] + []string{"\n", "\r\n", "\r"}[r.Intn(3)] + s[p:]
	case 7:
		if len(s) > 0 {
			p := r.Intn(len(s))
			return s[:p] + string(b64alpha[r.Intn(64)]) + s[p+1:]
		}
		return ""
	default:
		n := r.Intn(12)
		var sb strings.Builder
		for i := 0; i < n; i++ {
			sb.WriteByte(b64alpha[r.Intn(64)])
		}
		return sb.String()
	}
}

// ---------------------------------------------------------------- hex / base-32 helpers

func genRadixText(r *rand.Rand, base int) string {
	v := genBig(r)
	s := new(big.Int).Abs(v).Text(base)
	if r.Intn(5) == 0 {
		s = strings.ToUpper(s)
	}
	if r.Intn(8) == 0 {
		s = strings.Repeat("0", 1+r.Intn(20)) + s
	}
	if r.Intn(12) == 0 {
		s = []string{"0x", "0X", "0b", "0o", "0"}[r.Intn(5)] + s
	}
	if v.Sign() < 0 {
		s = "-" + s
	} else if r.Intn(10) == 0 {
		s = "+" + s
	}
	if r.Intn(8) == 0 {
		j := []string{"g", "z", "w", "_", " ", ".", "h", "x", "G", "-", "", "é"}[r.Intn(12)]
		if j == "" {
			return ""
		}
		p := r.Intn(len(s) + 1)
		s = s[:p] + j + s[p:]
	}
	return s
}

func radixSpec(s string, base int, lo, hi *big.Int, canon func(*big.Int) string) spec {
	v, cls, ok := radixText(s, base)
	if !ok {
		return spec{class: cls}
	}
	if !inRange(v, lo, hi) {
		return spec{class: "radix_oor"}
	}
	return spec{class: cls, accepted: []string{v.String()}, required: canon(v) == s}
}

func hexCase(k *engine.Case) {
	r := k.R
	for i := 0; i < 8; i++ {
		v := genI64(r)
		u := genU64(r)
		for _, c := range []struct {
			name string
			base int
			txt  string
			back func(string) (string, error)
			want string
		}{
			{"I64Hex/HexI64", 16, tex.I64Hex(v), func(s string) (string, error) { x, e := tex.HexI64(s); return i64s(x), e }, i64s(v)},
			{"I64HexV2/HexI64V2", 32, tex.I64HexV2(v), func(s string) (string, error) { x, e := tex.HexI64V2(s); return i64s(x), e }, i64s(v)},
			{"U64Hex/HexU64", 16, tex.U64Hex(u), func(s string) (string, error) { x, e := tex.HexU64(s); return fmt.Sprint(x), e }, fmt.Sprint(u)},
			{"U64HexV2/HexU64V2", 32, tex.U64HexV2(u), func(s string) (string, error) { x, e := tex.HexU64V2(s); return fmt.Sprint(x), e }, fmt.Sprint(u)},
		} {
			if den, _, ok := radixText(c.txt, c.base); !ok || den.String() != c.want {
				fail(k, "encoder-denotes-other:"+c.name, "%s(%s) = %q which denotes %v in base %d", c.name, c.want, c.txt, den, c.base)
			}
			obs, err := c.back(c.txt)
			rtCheck(k, c.name, "text", c.want, c.want, []byte(c.txt), obs, err)
		}
	}
	for i := 0; i < 6; i++ {
		for _, c := range []struct {
			name   string
			base   int
			lo, hi *big.Int
			dec    func(string) (string, error)
			canon  func(*big.Int) string
		}{
			{"HexI64", 16, bigMinI64, bigMaxI64, func(s string) (string, error) { x, e := tex.HexI64(s); return i64s(x), e }, func(v *big.Int) string { return tex.I64Hex(v.Int64()) }},
			{"HexI64V2", 32, bigMinI64, bigMaxI64, func(s string) (string, error) { x, e := tex.HexI64V2(s); return i64s(x), e }, func(v *big.Int) string { return tex.I64HexV2(v.Int64()) }},
			{"HexU64", 16, bigZero, bigMaxU64, func(s string) (string, error) { x, e := tex.HexU64(s); return fmt.Sprint(x), e }, func(v *big.Int) string { return tex.U64Hex(v.Uint64()) }},
			{"HexU64V2", 32, bigZero, bigMaxU64, func(s string) (string, error) { x, e := tex.HexU64V2(s); return fmt.Sprint(x), e }, func(v *big.Int) string { return tex.U64HexV2(v.Uint64()) }},
		} {
			s := genRadixText(r, c.base)
			sp := radixSpec(s, c.base, c.lo, c.hi, c.canon)
			obs, err := c.dec(s)
			judge(k, c.name, "text", sp, fmt.Sprintf("%q", s), obs, err)
		}
	}
}

// ---------------------------------------------------------------- clause 2: exact or error

func tokDirectCase(k *engine.Case) {
	r := k.R
	for _, t := range jtypes {
		for i := 0; i < 6; i++ {
			tok := t.genTok(r)
			sp := t.spec(tok)
			obs, err := t.decode(direct, append([]byte(nil), tok...))
			judge(k, t.name, "direct", sp, string(tok), obs, err)
		}
	}
	for i := 0; i < 6; i++ {
		s := genByteListText(r)
		out := tex.JsByte{7, 7}
		err := out.FromString(s)
		judge(k, "JsByte.FromString", "text", textByteSpec(s), fmt.Sprintf("%q", s), obsBytes(out), err)
	}
	for i := 0; i < 6; i++ {
		s := genDurText(r)
		out := tex.Duration(777)
		err := out.UnmarshalTOML(s)
		judge(k, "Duration.UnmarshalTOML", "text", durTextSpec(s, "text_"), fmt.Sprintf("%q", s), i64s(int64(out)), err)
	}
	// a TOML value that is not a string denotes no duration
	{
		var v any = []any{int64(r.Intn(1000)), float64(r.Intn(1000)), true, nil, []byte("1s"), time.Duration(r.Intn(1000))}[r.Intn(6)]
		out := tex.Duration(777)
		err := out.UnmarshalTOML(v)
		sp := spec{class: "toml_nonstring"}
		switch x := v.(type) {
		case int64:
			sp.accepted = []string{i64s(x)}
		case time.Duration:
			sp.accepted = []string{i64s(int64(x))}
		case []byte:
			sp.accepted = []string{i64s(int64(time.Second))}
		}
		judge(k, "Duration.UnmarshalTOML", "value", sp, fmt.Sprintf("%T(%v)", v, v), i64s(int64(out)), err)
	}
}

var wsBits = []string{"", "", "", " ", "\n", "\t ", "  "}

// docFor wraps a token as the value of field "v" of a well-formed document.
func docFor(r *rand.Rand, tok []byte) []byte {
	var sb strings.Builder
	sb.WriteString(pick(r, wsBits) + "{" + pick(r, wsBits))
	if r.Intn(4) == 0 {
		sb.WriteString(`"a":` + pick(r, []string{`1`, `"x"`, `null`, `[1,"2"]`, `{"v":5}`}) + `,`)
	}
	sb.WriteString(`"v"` + pick(r, wsBits) + ":" + pick(r, wsBits))
	sb.Write(tok)
	sb.WriteString(pick(r, wsBits))
	if r.Intn(4) == 0 {
		sb.WriteString(`,"z":` + pick(r, []string{`0`, `"9"`, `true`, `[]`, `{}`}))
	}
	sb.WriteString("}" + pick(r, wsBits))
	return []byte(sb.String())
}

func tokJSONCase(k *engine.Case) {
	r := k.R
	for _, t := range jtypes {
		for i := 0; i < 2; i++ {
			tok := t.genTok(r)
			sp := t.spec(tok)
			doc := docFor(r, tok)
			k.Logf("document %q", clip(string(doc)))
			for p := range libs {
				obs, err := t.decode(p, append([]byte(nil), doc...))
				judge(k, t.name, libs[p].name, sp, string(tok), obs, err)
			}
		}
	}
}

package c20

// Adapters: one jtype per JSON-adapted wrapper, built from a generic helper so that
// every type goes through exactly the same driver code.

import (
	"encoding/json"
	"math/rand"
	"strconv"
	"strings"
	"time"

	"github.com/pinealctx/neptune/jsonx"
	"github.com/pinealctx/neptune/tex"
)

type jsonLib struct {
	name      string
	marshal   func(any) ([]byte, error)
	unmarshal func([]byte, any) error
}

var libs = []jsonLib{
	{"encoding/json", json.Marshal, json.Unmarshal},
	{"jsonx.std", jsonx.JSONMarshal, jsonx.JSONUnmarshal},
	{"jsonx.fast", jsonx.JSONFastMarshal, jsonx.JSONFastUnmarshal},
}

const direct = -1

func libName(p int) string {
	if p < 0 {
		return "direct"
	}
	return libs[p].name
}

type box[T any] struct {
	V T `json:"v"`
}

// cbox: the wrapper inside the containers a struct usually has.
type cbox[T any] struct {
	L []T          `json:"l"`
	P *T           `json:"p"`
	M map[string]T `json:"m"`
}

// jtype is the type-erased driver of one wrapper type.
type jtype struct {
	name    string
	genTok  func(r *rand.Rand) []byte
	spec    func(tok []byte) spec
	decode  func(path int, data []byte) (obs string, err error) // path direct: data is the token; else a document {"v":token}
	quoted3 bool                                                // encoder output must be the quoted decimal form (anchored mechanism)
	// roundTrip draws a value and returns: its expected observation, a printable form,
	// and functions to encode / decode it along a path.
	draw func(r *rand.Rand) rtValue
}

type rtValue struct {
	show   string
	want   string
	encode func(path int) ([]byte, error)                // direct: the token; else {"v":token}
	decode func(path int, data []byte) (string, error)   // fresh sentinel target
	encC   func(path int) ([]byte, error)                // container document (lib paths only)
	decC   func(path int, data []byte) ([]string, error) // observations L[0], L[1], *P, M["k"]
}

func mk[T any, P interface {
	*T
	json.Unmarshaler
}](name string, sentinels [2]T, obs func(T) string, genTok func(*rand.Rand) []byte,
	specFn func(tok []byte, nullOK []string) spec, zeroObs []string,
	gen func(*rand.Rand) T, want func(T) string, show func(T) string) *jtype {

	dec := func(path int, data []byte, init T) (string, error) {
		if path == direct {
			v := init
			err := P(&v).UnmarshalJSON(data)
			return obs(v), err
		}
		b := box[T]{V: init}
		err := libs[path].unmarshal(data, &b)
		return obs(b.V), err
	}
	nullOK := append([]string{obs(sentinels[0])}, zeroObs...)
	t := &jtype{name: name, genTok: genTok}
	t.spec = func(tok []byte) spec { return specFn(tok, nullOK) }
	t.decode = func(path int, data []byte) (string, error) { return dec(path, data, sentinels[0]) }
	t.draw = func(r *rand.Rand) rtValue {
		v := gen(r)
		w := want(v)
		init := sentinels[0]
		if obs(init) == w {
			init = sentinels[1]
		}
		return rtValue{
			show: show(v), want: w,
			encode: func(path int) ([]byte, error) {
				if path == direct {
					return any(v).(json.Marshaler).MarshalJSON()
				}
				return libs[path].marshal(box[T]{V: v})
			},
			decode: func(path int, data []byte) (string, error) { return dec(path, data, init) },
			encC: func(path int) ([]byte, error) {
				pv := v
				return libs[path].marshal(cbox[T]{L: []T{v, v}, P: &pv, M: map[string]T{"k": v}})
			},
			decC: func(path int, data []byte) ([]string, error) {
				var c cbox[T]
				if err := libs[path].unmarshal(data, &c); err != nil {
					return nil, err
				}
				var out []string
				for _, x := range c.L {
					out = append(out, obs(x))
				}
				if c.P != nil {
					out = append(out, obs(*c.P))
				} else {
					out = append(out, "<nil pointer>")
				}
				if x, ok := c.M["k"]; ok {
					out = append(out, obs(x))
				} else {
					out = append(out, "<no map entry>")
				}
				return out, nil
			},
		}
	}
	return t
}

func i64s(v int64) string { return strconv.FormatInt(v, 10) }

func obsBytes(b []byte) string {
	parts := make([]string, len(b))
	for i, x := range b {
		parts[i] = strconv.Itoa(int(x))
	}
	return strings.Join(parts, "/")
}

// obsSec: a second-precision time as its unix second; a stray sub-second part is shown
// (and then matches nothing the oracle accepts).
func obsSec(t time.Time) string {
	if t.Nanosecond() != 0 {
		return i64s(t.Unix()) + "+" + strconv.Itoa(t.Nanosecond()) + "ns"
	}
	return i64s(t.Unix())
}

func intSpecFor(lo, hi int) func(tok []byte, nullOK []string) spec {
	return func(tok []byte, nullOK []string) spec {
		l, h := bigMinI64, bigMaxI64
		if lo == 0 {
			l, h = bigZero, bigMaxU64
		}
		_ = hi
		return intSpec(tok, l, h, nullOK)
	}
}

var zeroTime = time.Time{}

var jtypes = []*jtype{
	mk[tex.JsInt64]("JsInt64", [2]tex.JsInt64{777, 778}, func(v tex.JsInt64) string { return i64s(int64(v)) },
		genIntToken, intSpecFor(-1, 1), []string{"0"},
		func(r *rand.Rand) tex.JsInt64 { return tex.JsInt64(genI64(r)) },
		func(v tex.JsInt64) string { return i64s(int64(v)) }, func(v tex.JsInt64) string { return i64s(int64(v)) }),
	mk[tex.JsUInt64]("JsUInt64", [2]tex.JsUInt64{777, 778}, func(v tex.JsUInt64) string { return strconv.FormatUint(uint64(v), 10) },
		genIntToken, intSpecFor(0, 1), []string{"0"},
		func(r *rand.Rand) tex.JsUInt64 { return tex.JsUInt64(genU64(r)) },
		func(v tex.JsUInt64) string { return strconv.FormatUint(uint64(v), 10) }, func(v tex.JsUInt64) string { return strconv.FormatUint(uint64(v), 10) }),
	mk[tex.UnixStamp]("UnixStamp", [2]tex.UnixStamp{777, 778}, func(v tex.UnixStamp) string { return i64s(int64(v)) },
		genIntToken, intSpecFor(-1, 1), []string{"0"},
		func(r *rand.Rand) tex.UnixStamp { return tex.UnixStamp(genI64(r)) },
		func(v tex.UnixStamp) string { return i64s(int64(v)) }, func(v tex.UnixStamp) string { return i64s(int64(v)) }),
	mk[tex.JsUnixTime]("JsUnixTime", [2]tex.JsUnixTime{tex.JsUnixTime(time.Unix(777, 0)), tex.JsUnixTime(time.Unix(778, 0))},
		func(v tex.JsUnixTime) string { return obsSec(time.Time(v)) },
		genIntToken, intSpecFor(-1, 1), []string{"0", obsSec(zeroTime)},
		func(r *rand.Rand) tex.JsUnixTime { return tex.JsUnixTime(genTimeSec(r)) },
		// the text form carries whole seconds: that is what must come back
		func(v tex.JsUnixTime) string { return i64s(time.Time(v).Unix()) },
		func(v tex.JsUnixTime) string { return time.Time(v).UTC().Format(time.RFC3339Nano) }),
	mk[tex.JsNanoTime]("JsNanoTime", [2]tex.JsNanoTime{tex.JsNanoTime(time.Unix(0, 777)), tex.JsNanoTime(time.Unix(0, 778))},
		func(v tex.JsNanoTime) string { return i64s(time.Time(v).UnixNano()) },
		genIntToken, intSpecFor(-1, 1), []string{"0", i64s(zeroTime.UnixNano())},
		func(r *rand.Rand) tex.JsNanoTime { return tex.JsNanoTime(genTimeNano(r)) },
		func(v tex.JsNanoTime) string { return i64s(time.Time(v).UnixNano()) },
		func(v tex.JsNanoTime) string { return time.Time(v).UTC().Format(time.RFC3339Nano) }),
	mk[tex.Duration]("Duration", [2]tex.Duration{777, 778}, func(v tex.Duration) string { return i64s(int64(v)) },
		genDurToken, durSpec, []string{"0"},
		func(r *rand.Rand) tex.Duration { return tex.Duration(genDur(r)) },
		func(v tex.Duration) string { return i64s(int64(v)) }, func(v tex.Duration) string { return time.Duration(v).String() }),
	mk[tex.JsByte]("JsByte", [2]tex.JsByte{{7, 7}, {8, 8}}, func(v tex.JsByte) string { return obsBytes(v) },
		genByteToken, byteSpec, []string{""},
		func(r *rand.Rand) tex.JsByte { return tex.JsByte(genBytes(r)) },
		func(v tex.JsByte) string { return obsBytes(v) }, func(v tex.JsByte) string { return "[" + obsBytes(v) + "]" }),
}

func init() {
	for _, t := range jtypes {
		switch t.name {
		case "JsInt64", "JsUInt64", "UnixStamp":
			t.quoted3 = true
		}
	}
}
